// Command flytmc is the driver: it instruments the CURRENT /repo tree into a
// scratch directory, builds the harness against it with `go build -overlay`,
// runs the shards, merges their reports, writes evidence and replay files and
// decides the exit code (0 held / 1 VIOLATION / 2 infrastructure error).
package main

import (
	"crypto/sha1"
	"encoding/json"
	"errors"
	"fmt"
	"os"
	"os/exec"
	"path/filepath"
	"runtime"
	"sort"
	"strconv"
	"strings"
	"sync"
	"time"

	"flytverif/instr"
)

const repoDir = "/repo"

// verifDir is the root of the verification tree this binary belongs to
// (<root>/bin/flytmc): /verif for the registered checks, a snapshot directory
// for background runs.
var verifDir = func() string {
	if exe, err := os.Executable(); err == nil {
		root := filepath.Dir(filepath.Dir(exe))
		if _, err := os.Stat(filepath.Join(root, "mc", "harness")); err == nil {
			return root
		}
	}
	return "/verif"
}()

var goEnv = []string{"GOFLAGS=-mod=mod", "GOPROXY=off", "GOSUMDB=off", "GOTOOLCHAIN=local", "CGO_ENABLED=0"}

// which properties need the instrumented build
var instrProps = map[string]bool{"C05": true, "C06": true, "C07": true, "C08": true, "C09": true, "C11": true, "C12": true, "C13": true, "C20": true, "C02": true, "C17": true, "C18": true, "C19": true}

func main() {
	if len(os.Args) < 2 {
		usage()
	}
	switch os.Args[1] {
	case "check":
		os.Exit(cmdCheck(os.Args[2:]))
	case "replay":
		os.Exit(cmdReplay(os.Args[2:]))
	case "warm":
		os.Exit(cmdWarm())
	case "mutant":
		os.Exit(cmdMutant(os.Args[2:]))
	case "instrument":
		os.Exit(cmdInstrument(os.Args[2:]))
	case "transcheck":
		os.Exit(cmdTranscheck())
	default:
		usage()
	}
}

func usage() {
	fmt.Fprintln(os.Stderr, "usage: flytmc check <Cxx> [--tier quick|thorough] | replay <file> | warm | instrument <outdir> | mutant <patch> <Cxx>...")
	os.Exit(2)
}

type build struct {
	scratch string
	bin     string
	overlay string
	ist     instr.Stats
}

func (b *build) cleanup() {
	if os.Getenv("VERIF_KEEP") != "" {
		fmt.Fprintln(os.Stderr, "kept build:", b.scratch)
		return
	}
	if b != nil && b.scratch != "" {
		os.RemoveAll(b.scratch)
	}
}

// prepare instruments and builds the harness.  rewrite selects the
// instrumented (scheduler) build or the plain one.
func prepare(rewrite bool, extra map[string]string) (*build, error) {
	scratch, err := os.MkdirTemp("", "flytmc-")
	if err != nil {
		return nil, err
	}
	b := &build{scratch: scratch}
	ov, st, err := instr.Run(instr.Config{
		RepoDir: repoDir, RtDir: filepath.Join(verifDir, "mc", "rt"),
		ExportGo: filepath.Join(verifDir, "mc", "export", "zz_verif_export.go"),
		OutDir:   scratch, Rewrite: rewrite, Races: rewrite, ExtraReplace: extra,
	})
	if err != nil {
		b.cleanup()
		return nil, err
	}
	b.overlay, b.ist = ov, st
	b.bin = filepath.Join(scratch, "harness")
	cmd := exec.Command("go", "build", "-overlay", ov, "-tags", "verif", "-o", b.bin, "./harness")
	cmd.Dir = filepath.Join(verifDir, "mc")
	cmd.Env = append(os.Environ(), goEnv...)
	out, err := cmd.CombinedOutput()
	if err != nil {
		b.cleanup()
		return nil, fmt.Errorf("build failed: %v\n%s", err, out)
	}
	return b, nil
}

type tierCfg struct {
	budget time.Duration
}

func parseTier(args []string) (string, []string) {
	tier := os.Getenv("VERIF_TIER")
	if tier == "" {
		tier = "quick"
	}
	var rest []string
	for i := 0; i < len(args); i++ {
		switch {
		case args[i] == "--tier" && i+1 < len(args):
			tier = args[i+1]
			i++
		case strings.HasPrefix(args[i], "--tier="):
			tier = strings.TrimPrefix(args[i], "--tier=")
		default:
			rest = append(rest, args[i])
		}
	}
	if tier != "quick" && tier != "thorough" {
		fmt.Fprintln(os.Stderr, "bad tier", tier)
		os.Exit(2)
	}
	return tier, rest
}

func cmdCheck(args []string) int {
	tier, rest := parseTier(args)
	if len(rest) != 1 {
		usage()
	}
	id := rest[0]
	start := time.Now()
	b, err := prepare(instrProps[id], overlayFromEnv())
	if err != nil {
		fmt.Fprintf(os.Stderr, "ERROR %v\n", err)
		return 2
	}
	defer b.cleanup()
	rep, err := runShards(b, id, tier)
	if err != nil {
		fmt.Fprintf(os.Stderr, "ERROR %v\n", err)
		return 2
	}
	return conclude(id, tier, rep, b, start, os.Getenv("VERIF_NO_EVIDENCE") == "")
}

// Merged is the union of shard reports.
type Merged struct {
	Reports          []map[string]any
	Executions       int64
	Transitions      int64
	TreeNodes        int64
	Scenarios        int
	ScenTotal        int
	ByCost           map[string]int64
	Outcomes         map[string]int64
	MaxDepth         int
	MaxThreads       int
	Deadlocks        int64
	Races            int64
	Panics           int64
	Capped           bool
	CapReasons       []string
	Incomplete       []string
	Violations       []map[string]any
	Samples          []any
	Extra            map[string]int64
	Rows             []any
	AllRows          []any
	OutcomeHashes    map[string]bool
	HashesPartial    bool
	MaxShardDistinct int
}

func runShards(b *build, id, tier string) (*Merged, error) {
	n := runtime.NumCPU()
	if n > 16 {
		n = 16
	}
	if s := os.Getenv("VERIF_SHARDS"); s != "" {
		if k, err := strconv.Atoi(s); err == nil && k > 0 {
			n = k
		}
	}
	budget := 45 * time.Second
	if tier == "thorough" {
		budget = 9 * time.Minute
	}
	if s := os.Getenv("VERIF_BUDGET"); s != "" {
		if d, err := time.ParseDuration(s); err == nil {
			budget = d
		}
	}
	type res struct {
		out []byte
		err error
		i   int
	}
	results := make([]res, n)
	var wg sync.WaitGroup
	for i := 0; i < n; i++ {
		wg.Add(1)
		go func(i int) {
			defer wg.Done()
			outf := filepath.Join(b.scratch, fmt.Sprintf("shard%d.json", i))
			cmd := exec.Command(b.bin, "-prop", id, "-tier", tier, "-shard", strconv.Itoa(i), "-nshards", strconv.Itoa(n), "-budget", budget.String(), "-out", outf, "-claimdir", b.scratch)
			cmd.Env = append(os.Environ(), "GOMAXPROCS=1")
			// hard stop: a shard that does not come back is an infrastructure error, never a hang
			timer := time.AfterFunc(budget+90*time.Second, func() {
				if cmd.Process != nil {
					cmd.Process.Kill()
				}
			})
			msg, err := cmd.CombinedOutput()
			timer.Stop()
			if err != nil {
				results[i] = res{err: fmt.Errorf("shard %d: %v\n%s", i, err, tail(string(msg), 4000)), i: i}
				return
			}
			data, err := os.ReadFile(outf)
			results[i] = res{out: data, err: err, i: i}
		}(i)
	}
	wg.Wait()
	m := &Merged{ByCost: map[string]int64{}, Outcomes: map[string]int64{}, Extra: map[string]int64{}, OutcomeHashes: map[string]bool{}}
	for _, r := range results {
		if r.err != nil {
			return nil, r.err
		}
		var rep map[string]any
		if err := json.Unmarshal(r.out, &rep); err != nil {
			return nil, fmt.Errorf("shard %d: bad report: %v", r.i, err)
		}
		m.Executions += num(rep["executions"])
		m.Transitions += num(rep["transitions"])
		m.TreeNodes += num(rep["tree_nodes"])
		m.Scenarios += int(num(rep["scenarios"]))
		m.ScenTotal = int(num(rep["scenarios_total"]))
		addMap(m.ByCost, rep["by_cost"])
		addMap(m.Outcomes, rep["outcomes"])
		d := int(num(rep["distinct_outcomes"]))
		if hs, ok := rep["outcome_hashes"].([]any); ok && len(hs) == d {
			for _, h := range hs {
				m.OutcomeHashes[fmt.Sprint(h)] = true
			}
		} else if d > 0 {
			m.HashesPartial = true
		}
		if d > m.MaxShardDistinct {
			m.MaxShardDistinct = d
		}
		addMap(m.Extra, rep["extra"])
		if d := int(num(rep["max_depth"])); d > m.MaxDepth {
			m.MaxDepth = d
		}
		if d := int(num(rep["max_threads"])); d > m.MaxThreads {
			m.MaxThreads = d
		}
		m.Deadlocks += num(rep["deadlocks"])
		m.Races += num(rep["races"])
		m.Panics += num(rep["panics"])
		if c, _ := rep["capped"].(bool); c {
			m.Capped = true
		}
		for _, x := range strs(rep["cap_reasons"]) {
			m.CapReasons = appendUniq(m.CapReasons, x)
		}
		m.Incomplete = append(m.Incomplete, strs(rep["incomplete_scenarios"])...)
		if vs, ok := rep["violations"].([]any); ok {
			for _, v := range vs {
				m.Violations = append(m.Violations, v.(map[string]any))
			}
		}
		if ss, ok := rep["samples"].([]any); ok && len(m.Samples) < 4 {
			for _, s := range ss {
				if len(m.Samples) < 4 {
					m.Samples = append(m.Samples, s)
				}
			}
		}
		if rs, ok := rep["rows"].([]any); ok {
			m.AllRows = append(m.AllRows, rs...)
		}
	}
	// evidence keeps the heaviest and a few of the lightest scenarios
	sort.SliceStable(m.AllRows, func(i, j int) bool {
		return num(m.AllRows[i].(map[string]any)["executions"]) > num(m.AllRows[j].(map[string]any)["executions"])
	})
	for i, r := range m.AllRows {
		if i < 40 || i >= len(m.AllRows)-10 {
			m.Rows = append(m.Rows, r)
		}
	}
	if os.Getenv("VERIF_TOP") != "" {
		for i, r := range m.AllRows {
			if i < 12 {
				rm := r.(map[string]any)
				fmt.Fprintf(os.Stderr, "TOP %v exec=%v completed=%v\n", rm["name"], rm["executions"], rm["completed"])
			}
		}
		for _, n := range m.Incomplete {
			fmt.Fprintf(os.Stderr, "INCOMPLETE %s\n", n)
		}
	}
	return m, nil
}

func tail(s string, n int) string {
	if len(s) > n {
		return s[len(s)-n:]
	}
	return s
}

func num(v any) int64 {
	if f, ok := v.(float64); ok {
		return int64(f)
	}
	return 0
}

func strs(v any) []string {
	var out []string
	if l, ok := v.([]any); ok {
		for _, x := range l {
			if s, ok := x.(string); ok {
				out = append(out, s)
			}
		}
	}
	return out
}

func addMap(dst map[string]int64, v any) {
	if m, ok := v.(map[string]any); ok {
		for k, x := range m {
			dst[k] += num(x)
		}
	}
}

func appendUniq(l []string, s string) []string {
	for _, x := range l {
		if x == s {
			return l
		}
	}
	return append(l, s)
}

// ---------------------------------------------------------------- known findings

type knownFindings struct {
	Findings []struct {
		Property string `json:"property"`
		Match    string `json:"match"` // substring of the violation signature
		What     string `json:"what"`
	} `json:"findings"`
	Fixed []struct {
		Property string `json:"property"`
		Commit   string `json:"commit"`
		What     string `json:"what"`
	} `json:"fixed"`
}

func loadKnown() knownFindings {
	var k knownFindings
	b, err := os.ReadFile(filepath.Join(verifDir, "known_findings.json"))
	if err == nil {
		json.Unmarshal(b, &k)
	}
	return k
}

// ---------------------------------------------------------------- conclude

func conclude(id, tier string, m *Merged, b *build, start time.Time, writeEvidence bool) int {
	known := loadKnown()
	var real []map[string]any
	knownHit := map[string]bool{}
	for _, v := range m.Violations {
		sig, _ := v["sig"].(string)
		matched := false
		for _, k := range known.Findings {
			if k.Property == id && k.Match != "" && strings.Contains(sig, k.Match) {
				knownHit[k.What] = true
				matched = true
				break
			}
		}
		if !matched {
			real = append(real, v)
		}
	}
	var whats []string
	for w := range knownHit {
		whats = append(whats, w)
	}
	sort.Strings(whats)
	for _, w := range whats {
		fmt.Printf("KNOWN-FINDING: property=%s %s\n", id, w)
	}
	seed := 0
	if s := os.Getenv("VERIF_SEED"); s != "" {
		seed, _ = strconv.Atoi(s)
	}
	exhaustive := !m.Capped && m.Scenarios == m.ScenTotal
	// distinct observed outcomes: exact union of per-shard hash sets when every shard
	// sent its set; otherwise a conservative lower bound (the largest single shard)
	distinct := len(m.OutcomeHashes)
	distinctNote := "exact (union of outcome hashes over all shards)"
	if m.HashesPartial {
		if m.MaxShardDistinct > distinct {
			distinct = m.MaxShardDistinct
		}
		distinctNote = "lower bound (largest per-shard count; some shards had too many outcomes to ship their hash sets)"
	}
	outKeys := make([]string, 0, len(m.Outcomes))
	for k := range m.Outcomes {
		outKeys = append(outKeys, k)
	}
	sort.Strings(outKeys)
	if len(outKeys) > 12 {
		outKeys = outKeys[:12]
	}
	samples := m.Samples
	if len(samples) == 0 {
		samples = []any{map[string]any{"note": "no sample recorded"}}
	}
	cov := map[string]any{
		"states":                        max64(m.TreeNodes, 1),
		"transitions":                   max64(m.Transitions, 1),
		"traces_validated_against_impl": m.Executions,
		"evaluations":                   m.Executions,
		"distinct_nontrivial":           distinct,
		"distinct_nontrivial_note":      distinctNote,
		"rule":                          "every scenario of the property's closed alphabet is explored exhaustively within its deviation bound; an execution is one run of the real flyt code; outcomes are distinct observation signatures (callback traces / return values / completion orders)",
		"samples":                       samples,
		"exhaustive":                    exhaustive,
		"scenarios_run":                 m.Scenarios,
		"scenarios_total":               m.ScenTotal,
		"executions_by_deviation_cost":  m.ByCost,
		"max_choice_depth":              m.MaxDepth,
		"max_threads":                   m.MaxThreads,
		"deadlocks_seen":                m.Deadlocks,
		"executions_with_races":         m.Races,
		"executions_with_panics":        m.Panics,
		"cap_reasons":                   m.CapReasons,
		"incomplete_scenarios":          firstN(m.Incomplete, 20),
		"incomplete_count":              len(m.Incomplete),
		"outcome_examples":              outKeys,
		"per_scenario":                  m.Rows,
		"extra":                         m.Extra,
		"instrumentor":                  map[string]any{"files_rewritten": b.ist.Files, "go_stmts": b.ist.GoStmts, "chan_ops": b.ist.ChanOps, "selects": b.ist.Selects, "import_swaps": b.ist.ImportSwaps, "access_events": b.ist.Accesses},
		"explanation":                   "states = distinct choice-tree prefixes visited by the stateless DFS; transitions = scheduler steps + choice points executed; every trace is an execution of the implementation itself, so traces_validated_against_impl = executions",
	}
	ev := map[string]any{
		"property_id": id, "tier": tier, "seed": seed, "level": "model_checking",
		"coverage": cov,
		"assumptions": []string{
			"sequentially consistent interleavings at synchronisation-operation granularity; data-race freedom is checked on every explored execution by the vector-clock detector",
			"the runtime's models of sync/channels/time/context match the real primitives",
			"bounds: see per_scenario (deviation bound = preemptions) and DESIGN.md section 5",
		},
		"wall_s":     time.Since(start).Seconds(),
		"violations": len(real),
	}
	if writeEvidence {
		os.MkdirAll(filepath.Join(verifDir, "evidence"), 0o755)
		eb, _ := json.MarshalIndent(ev, "", " ")
		if err := os.WriteFile(filepath.Join(verifDir, "evidence", id+".json"), eb, 0o644); err != nil {
			fmt.Fprintf(os.Stderr, "ERROR writing evidence: %v\n", err)
			return 2
		}
	}
	fmt.Printf("property=%s tier=%s scenarios=%d/%d executions=%d tree_nodes=%d transitions=%d outcomes=%d exhaustive=%v by_cost=%v wall=%.1fs\n",
		id, tier, m.Scenarios, m.ScenTotal, m.Executions, m.TreeNodes, m.Transitions, distinct, exhaustive, m.ByCost, time.Since(start).Seconds())
	if m.Capped {
		fmt.Printf("NOTE capped: %v (%d scenarios incomplete)\n", m.CapReasons, len(m.Incomplete))
	}
	if len(real) == 0 {
		return 0
	}
	// order: fewest deviations first
	sort.SliceStable(real, func(i, j int) bool { return num(real[i]["cost"]) < num(real[j]["cost"]) })
	os.MkdirAll(filepath.Join(verifDir, "replays"), 0o755)
	printed := map[string]bool{}
	for _, v := range real {
		v["property"] = id
		vb, _ := json.MarshalIndent(v, "", " ")
		h := sha1.Sum([]byte(fmt.Sprint(v["scenario"], v["choices"])))
		path := filepath.Join(verifDir, "replays", fmt.Sprintf("%s-%x.json", id, h[:5]))
		os.WriteFile(path, vb, 0o644) // replay artefacts are always written (git-ignored scratch)
		if !printed[path] {
			printed[path] = true
			fmt.Printf("VIOLATION property=%s replay=%s\n", id, path)
			fmt.Printf("  scenario: %v\n", v["scenario"])
			for _, msg := range strs(v["msgs"]) {
				fmt.Printf("  problem: %s\n", msg)
			}
		}
	}
	return 1
}

func firstN(l []string, n int) []string {
	if len(l) > n {
		return l[:n]
	}
	return l
}

func max64(a, b int64) int64 {
	if a > b {
		return a
	}
	return b
}

// ---------------------------------------------------------------- replay

func cmdReplay(args []string) int {
	if len(args) != 1 {
		usage()
	}
	data, err := os.ReadFile(args[0])
	if err != nil {
		fmt.Fprintln(os.Stderr, "ERROR", err)
		return 2
	}
	var v map[string]any
	if err := json.Unmarshal(data, &v); err != nil {
		fmt.Fprintln(os.Stderr, "ERROR", err)
		return 2
	}
	id, _ := v["property"].(string)
	b, err := prepare(instrProps[id], overlayFromEnv())
	if err != nil {
		fmt.Fprintf(os.Stderr, "ERROR %v\n", err)
		return 2
	}
	defer b.cleanup()
	var cs []string
	if l, ok := v["choices"].([]any); ok {
		for _, c := range l {
			cs = append(cs, strconv.Itoa(int(num(c))))
		}
	}
	tier, _ := v["tier"].(string)
	if tier == "" {
		tier = "quick"
	}
	cmd := exec.Command(b.bin, "-prop", id, "-tier", tier, "-scenario", fmt.Sprint(v["scenario"]), "-choices", strings.Join(cs, ","))
	cmd.Stdout, cmd.Stderr = os.Stdout, os.Stderr
	err = cmd.Run()
	var ee *exec.ExitError
	if errors.As(err, &ee) {
		if ee.ExitCode() == 1 {
			fmt.Printf("VIOLATION property=%s replay=%s\n", id, args[0])
		}
		return ee.ExitCode()
	}
	if err != nil {
		return 2
	}
	return 0
}

// ---------------------------------------------------------------- warm / instrument

func cmdWarm() int {
	for _, rw := range []bool{true, false} {
		b, err := prepare(rw, nil)
		if err != nil {
			fmt.Fprintf(os.Stderr, "ERROR %v\n", err)
			return 2
		}
		fmt.Printf("warm: built harness (instrumented=%v) files=%d go=%d chanops=%d selects=%d accesses=%d\n", rw, b.ist.Files, b.ist.GoStmts, b.ist.ChanOps, b.ist.Selects, b.ist.Accesses)
		b.cleanup()
	}
	if rc := cmdTranscheck(); rc != 0 {
		fmt.Println("warm: WARNING translation sanity check did not pass (see above); checks still run")
	}
	return 0
}

func cmdInstrument(args []string) int {
	if len(args) != 1 {
		usage()
	}
	os.MkdirAll(args[0], 0o755)
	_, st, err := instr.Run(instr.Config{RepoDir: repoDir, RtDir: filepath.Join(verifDir, "mc", "rt"),
		ExportGo: filepath.Join(verifDir, "mc", "export", "zz_verif_export.go"), OutDir: args[0], Rewrite: true, Races: true})
	if err != nil {
		fmt.Fprintf(os.Stderr, "ERROR %v\n", err)
		return 2
	}
	fmt.Printf("%+v\n", st)
	return 0
}

// cmdTranscheck: translation sanity check of the instrumentor.  The rewritten
// package must still be a faithful program: the repository's own tests are run
// against it with the runtime in passthrough mode (no controlled execution is
// active, so every shim delegates to the real primitive).
func cmdTranscheck() int {
	scratch, err := os.MkdirTemp("", "flytmc-tc-")
	if err != nil {
		fmt.Fprintln(os.Stderr, "ERROR", err)
		return 2
	}
	defer os.RemoveAll(scratch)
	ov, st, err := instr.Run(instr.Config{RepoDir: repoDir, RtDir: filepath.Join(verifDir, "mc", "rt"),
		ExportGo: filepath.Join(verifDir, "mc", "export", "zz_verif_export.go"), OutDir: scratch, Rewrite: true, Races: true})
	if err != nil {
		fmt.Fprintf(os.Stderr, "ERROR %v\n", err)
		return 2
	}
	cmd := exec.Command("go", "test", "-overlay", ov, "-tags", "verif", "-vet=off", "-count=1", "-json", ".")
	cmd.Dir = repoDir
	cmd.Env = append(os.Environ(), goEnv...)
	out, _ := cmd.CombinedOutput()
	pass, fail := 0, 0
	for _, l := range strings.Split(string(out), "\n") {
		var ev struct{ Action, Test string }
		if json.Unmarshal([]byte(l), &ev) == nil && ev.Test != "" {
			switch ev.Action {
			case "pass":
				pass++
			case "fail":
				fail++
				fmt.Println("FAIL", ev.Test)
			}
		}
	}
	fmt.Printf("transcheck: repository tests on the REWRITTEN package (passthrough runtime): %d passed, %d failed; rewritten %d files, %d go stmts, %d channel ops, %d selects, %d map ranges, %d access events\n",
		pass, fail, st.Files, st.GoStmts, st.ChanOps, st.Selects, st.MapRanges, st.Accesses)
	if fail > 0 || pass < 90 {
		fmt.Println(tail(string(out), 2000))
		return 2
	}
	return 0
}

// overlayFromEnv: VERIF_OVERLAY="/repo/flyt.go=/some/dir/flyt.go,..." checks the tree with those
// files substituted, /repo itself untouched (used by scripts/automut.py to judge one-token
// mutants of the library in bulk; never set by the registered commands).
func overlayFromEnv() map[string]string {
	v := os.Getenv("VERIF_OVERLAY")
	if v == "" {
		return nil
	}
	m := map[string]string{}
	for _, kv := range strings.Split(v, ",") {
		if i := strings.Index(kv, "="); i > 0 {
			m[kv[:i]] = kv[i+1:]
		}
	}
	return m
}

func cmdMutant(args []string) int {
	fmt.Fprintln(os.Stderr, "use scripts/mutants.sh")
	return 2
}
