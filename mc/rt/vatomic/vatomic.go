// Package vatomic has the commonly used part of sync/atomic's API; every
// operation is a scheduling point and a synchronisation edge.
package vatomic

import (
	"sync/atomic"

	"github.com/mark3labs/flyt/zzvrt/core"
)

type Int32 struct {
	c core.AtomicCell
	v atomic.Int32
}

func (x *Int32) Load() int32        { x.c.Sync("atomic.Load"); return x.v.Load() }
func (x *Int32) Store(v int32)      { x.c.Sync("atomic.Store"); x.v.Store(v) }
func (x *Int32) Add(d int32) int32  { x.c.Sync("atomic.Add"); return x.v.Add(d) }
func (x *Int32) Swap(v int32) int32 { x.c.Sync("atomic.Swap"); return x.v.Swap(v) }
func (x *Int32) CompareAndSwap(o, n int32) bool {
	x.c.Sync("atomic.CAS")
	return x.v.CompareAndSwap(o, n)
}

type Int64 struct {
	c core.AtomicCell
	v atomic.Int64
}

func (x *Int64) Load() int64        { x.c.Sync("atomic.Load"); return x.v.Load() }
func (x *Int64) Store(v int64)      { x.c.Sync("atomic.Store"); x.v.Store(v) }
func (x *Int64) Add(d int64) int64  { x.c.Sync("atomic.Add"); return x.v.Add(d) }
func (x *Int64) Swap(v int64) int64 { x.c.Sync("atomic.Swap"); return x.v.Swap(v) }
func (x *Int64) CompareAndSwap(o, n int64) bool {
	x.c.Sync("atomic.CAS")
	return x.v.CompareAndSwap(o, n)
}

type Uint32 struct {
	c core.AtomicCell
	v atomic.Uint32
}

func (x *Uint32) Load() uint32        { x.c.Sync("atomic.Load"); return x.v.Load() }
func (x *Uint32) Store(v uint32)      { x.c.Sync("atomic.Store"); x.v.Store(v) }
func (x *Uint32) Add(d uint32) uint32 { x.c.Sync("atomic.Add"); return x.v.Add(d) }
func (x *Uint32) CompareAndSwap(o, n uint32) bool {
	x.c.Sync("atomic.CAS")
	return x.v.CompareAndSwap(o, n)
}

type Uint64 struct {
	c core.AtomicCell
	v atomic.Uint64
}

func (x *Uint64) Load() uint64        { x.c.Sync("atomic.Load"); return x.v.Load() }
func (x *Uint64) Store(v uint64)      { x.c.Sync("atomic.Store"); x.v.Store(v) }
func (x *Uint64) Add(d uint64) uint64 { x.c.Sync("atomic.Add"); return x.v.Add(d) }
func (x *Uint64) CompareAndSwap(o, n uint64) bool {
	x.c.Sync("atomic.CAS")
	return x.v.CompareAndSwap(o, n)
}

type Bool struct {
	c core.AtomicCell
	v atomic.Bool
}

func (x *Bool) Load() bool       { x.c.Sync("atomic.Load"); return x.v.Load() }
func (x *Bool) Store(v bool)     { x.c.Sync("atomic.Store"); x.v.Store(v) }
func (x *Bool) Swap(v bool) bool { x.c.Sync("atomic.Swap"); return x.v.Swap(v) }
func (x *Bool) CompareAndSwap(o, n bool) bool {
	x.c.Sync("atomic.CAS")
	return x.v.CompareAndSwap(o, n)
}

type Value struct {
	c core.AtomicCell
	v atomic.Value
}

func (x *Value) Load() any   { x.c.Sync("atomic.Load"); return x.v.Load() }
func (x *Value) Store(v any) { x.c.Sync("atomic.Store"); x.v.Store(v) }

// Function-style atomics: one global cell (conservative: all such operations
// synchronise with each other).
var global core.AtomicCell

func AddInt32(p *int32, d int32) int32 { global.Sync("atomic.Add"); return atomic.AddInt32(p, d) }
func AddInt64(p *int64, d int64) int64 { global.Sync("atomic.Add"); return atomic.AddInt64(p, d) }
func LoadInt32(p *int32) int32         { global.Sync("atomic.Load"); return atomic.LoadInt32(p) }
func LoadInt64(p *int64) int64         { global.Sync("atomic.Load"); return atomic.LoadInt64(p) }
func StoreInt32(p *int32, v int32)     { global.Sync("atomic.Store"); atomic.StoreInt32(p, v) }
func StoreInt64(p *int64, v int64)     { global.Sync("atomic.Store"); atomic.StoreInt64(p, v) }
func CompareAndSwapInt32(p *int32, o, n int32) bool {
	global.Sync("atomic.CAS")
	return atomic.CompareAndSwapInt32(p, o, n)
}
func CompareAndSwapInt64(p *int64, o, n int64) bool {
	global.Sync("atomic.CAS")
	return atomic.CompareAndSwapInt64(p, o, n)
}

// Pointer mirrors atomic.Pointer[T].
type Pointer[T any] struct {
	c core.AtomicCell
	v atomic.Pointer[T]
}

func (x *Pointer[T]) Load() *T     { x.c.Sync("atomic.Load"); return x.v.Load() }
func (x *Pointer[T]) Store(p *T)   { x.c.Sync("atomic.Store"); x.v.Store(p) }
func (x *Pointer[T]) Swap(p *T) *T { x.c.Sync("atomic.Swap"); return x.v.Swap(p) }
func (x *Pointer[T]) CompareAndSwap(o, n *T) bool {
	x.c.Sync("atomic.CAS")
	return x.v.CompareAndSwap(o, n)
}

type Uintptr struct {
	c core.AtomicCell
	v atomic.Uintptr
}

func (x *Uintptr) Load() uintptr         { x.c.Sync("atomic.Load"); return x.v.Load() }
func (x *Uintptr) Store(v uintptr)       { x.c.Sync("atomic.Store"); x.v.Store(v) }
func (x *Uintptr) Add(d uintptr) uintptr { x.c.Sync("atomic.Add"); return x.v.Add(d) }

func AddUint32(p *uint32, d uint32) uint32 { global.Sync("atomic.Add"); return atomic.AddUint32(p, d) }
func AddUint64(p *uint64, d uint64) uint64 { global.Sync("atomic.Add"); return atomic.AddUint64(p, d) }
func LoadUint32(p *uint32) uint32          { global.Sync("atomic.Load"); return atomic.LoadUint32(p) }
func LoadUint64(p *uint64) uint64          { global.Sync("atomic.Load"); return atomic.LoadUint64(p) }
func StoreUint32(p *uint32, v uint32)      { global.Sync("atomic.Store"); atomic.StoreUint32(p, v) }
func StoreUint64(p *uint64, v uint64)      { global.Sync("atomic.Store"); atomic.StoreUint64(p, v) }
func SwapInt32(p *int32, v int32) int32    { global.Sync("atomic.Swap"); return atomic.SwapInt32(p, v) }
func SwapInt64(p *int64, v int64) int64    { global.Sync("atomic.Swap"); return atomic.SwapInt64(p, v) }
func CompareAndSwapUint32(p *uint32, o, n uint32) bool {
	global.Sync("atomic.CAS")
	return atomic.CompareAndSwapUint32(p, o, n)
}
func CompareAndSwapUint64(p *uint64, o, n uint64) bool {
	global.Sync("atomic.CAS")
	return atomic.CompareAndSwapUint64(p, o, n)
}
