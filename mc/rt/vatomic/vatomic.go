// Package vatomic has the commonly used part of sync/atomic's API; every
// operation is a scheduling point and a synchronisation edge.
package vatomic

import (
	"sync/atomic"

	"github.com/mark3labs/flyt/zzvrt/core"
)

type Int32 struct {
	c core.AtomicCell
	v atomic.Int32
}

func (x *Int32) Load() int32        { x.c.Sync("atomic.Load"); return x.v.Load() }
func (x *Int32) Store(v int32)      { x.c.Sync("atomic.Store"); x.v.Store(v) }
func (x *Int32) Add(d int32) int32  { x.c.Sync("atomic.Add"); return x.v.Add(d) }
func (x *Int32) Swap(v int32) int32 { x.c.Sync("atomic.Swap"); return x.v.Swap(v) }
func (x *Int32) CompareAndSwap(o, n int32) bool {
	x.c.Sync("atomic.CAS")
	return x.v.CompareAndSwap(o, n)
}

type Int64 struct {
	c core.AtomicCell
	v atomic.Int64
}

func (x *Int64) Load() int64        { x.c.Sync("atomic.Load"); return x.v.Load() }
func (x *Int64) Store(v int64)      { x.c.Sync("atomic.Store"); x.v.Store(v) }
func (x *Int64) Add(d int64) int64  { x.c.Sync("atomic.Add"); return x.v.Add(d) }
func (x *Int64) Swap(v int64) int64 { x.c.Sync("atomic.Swap"); return x.v.Swap(v) }
func (x *Int64) CompareAndSwap(o, n int64) bool {
	x.c.Sync("atomic.CAS")
	return x.v.CompareAndSwap(o, n)
}

type Uint32 struct {
	c core.AtomicCell
	v atomic.Uint32
}

func (x *Uint32) Load() uint32        { x.c.Sync("atomic.Load"); return x.v.Load() }
func (x *Uint32) Store(v uint32)      { x.c.Sync("atomic.Store"); x.v.Store(v) }
func (x *Uint32) Add(d uint32) uint32 { x.c.Sync("atomic.Add"); return x.v.Add(d) }
func (x *Uint32) CompareAndSwap(o, n uint32) bool {
	x.c.Sync("atomic.CAS")
	return x.v.CompareAndSwap(o, n)
}

type Uint64 struct {
	c core.AtomicCell
	v atomic.Uint64
}

func (x *Uint64) Load() uint64        { x.c.Sync("atomic.Load"); return x.v.Load() }
func (x *Uint64) Store(v uint64)      { x.c.Sync("atomic.Store"); x.v.Store(v) }
func (x *Uint64) Add(d uint64) uint64 { x.c.Sync("atomic.Add"); return x.v.Add(d) }
func (x *Uint64) CompareAndSwap(o, n uint64) bool {
	x.c.Sync("atomic.CAS")
	return x.v.CompareAndSwap(o, n)
}

type Bool struct {
	c core.AtomicCell
	v atomic.Bool
}

func (x *Bool) Load() bool       { x.c.Sync("atomic.Load"); return x.v.Load() }
func (x *Bool) Store(v bool)     { x.c.Sync("atomic.Store"); x.v.Store(v) }
func (x *Bool) Swap(v bool) bool { x.c.Sync("atomic.Swap"); return x.v.Swap(v) }
func (x *Bool) CompareAndSwap(o, n bool) bool {
	x.c.Sync("atomic.CAS")
	return x.v.CompareAndSwap(o, n)
}

type Value struct {
	c core.AtomicCell
	v atomic.Value
}

func (x *Value) Load() any   { x.c.Sync("atomic.Load"); return x.v.Load() }
func (x *Value) Store(v any) { x.c.Sync("atomic.Store"); x.v.Store(v) }

// Function-style atomics: one global cell (conservative: all such operations
// synchronise with each other).
var global core.AtomicCell

func AddInt32(p *int32, d int32) int32 { global.Sync("atomic.Add"); return atomic.AddInt32(p, d) }
func AddInt64(p *int64, d int64) int64 { global.Sync("atomic.Add"); return atomic.AddInt64(p, d) }
func LoadInt32(p *int32) int32         { global.Sync("atomic.Load"); return atomic.LoadInt32(p) }
func LoadInt64(p *int64) int64         { global.Sync("atomic.Load"); return atomic.LoadInt64(p) }
func StoreInt32(p *int32, v int32)     { global.Sync("atomic.Store"); atomic.StoreInt32(p, v) }
func StoreInt64(p *int64, v int64)     { global.Sync("atomic.Store"); atomic.StoreInt64(p, v) }
func CompareAndSwapInt32(p *int32, o, n int32) bool {
	global.Sync("atomic.CAS")
	return atomic.CompareAndSwapInt32(p, o, n)
}
func CompareAndSwapInt64(p *int64, o, n int64) bool {
	global.Sync("atomic.CAS")
	return atomic.CompareAndSwapInt64(p, o, n)
}
