package core

// Self-tests of the exploration engine and of the primitive models: each test
// explores a tiny program exhaustively and checks the SET of outcomes against
// what Go's semantics allow (known racy programs must show their bad outcome,
// correct ones must not), and that merging does not change outcome sets.

import (
	"context"
	"fmt"
	"sort"
	"strings"
	"testing"
	"time"
	"unsafe"
)

func outcomes(t *testing.T, bound int, merge bool, body func() string) (map[string]int64, *Stats) {
	t.Helper()
	var out string
	st := Explore(Options{Bound: bound, Merge: merge}, func() { out = body() }, func(x *Execution) (string, []string) {
		o := out
		if x.Deadlock != "" {
			o = "DEADLOCK"
		}
		if x.Panic != "" {
			o = "PANIC:" + x.Panic[strings.Index(x.Panic, "panic:")+7:]
		}
		if len(x.Races) > 0 {
			o += "+RACE"
		}
		return o, nil
	})
	return st.Outcomes, st
}

func keys(m map[string]int64) string {
	var ks []string
	for k := range m {
		ks = append(ks, k)
	}
	sort.Strings(ks)
	return strings.Join(ks, ",")
}

func TestLostUpdateFoundAndMutexPreventsIt(t *testing.T) {
	racy := func() string {
		var x Cell[int]
		inc := func() { v := x.Get(); Step("gap"); x.Set(v + 1) }
		a, b := Go("a", inc), Go("b", inc)
		Join(a)
		Join(b)
		return fmt.Sprint(x.Get())
	}
	got, _ := outcomes(t, 2, true, racy)
	if keys(got) != "1,2" {
		t.Fatalf("unprotected increment: outcomes %s, want 1,2", keys(got))
	}
	safe := func() string {
		var x Cell[int]
		var mu Mutex
		inc := func() { mu.Lock(); v := x.Get(); Step("gap"); x.Set(v + 1); mu.Unlock() }
		a, b := Go("a", inc), Go("b", inc)
		Join(a)
		Join(b)
		return fmt.Sprint(x.Get())
	}
	for _, merge := range []bool{true, false} {
		got, _ = outcomes(t, 1000, merge, safe)
		if keys(got) != "2" {
			t.Fatalf("mutex-protected increment (merge=%v): outcomes %s, want 2", merge, keys(got))
		}
	}
}

func TestLockOrderDeadlockNeedsOnePreemption(t *testing.T) {
	prog := func() string {
		var m1, m2 Mutex
		a := Go("a", func() { m1.Lock(); m2.Lock(); m2.Unlock(); m1.Unlock() })
		b := Go("b", func() { m2.Lock(); m1.Lock(); m1.Unlock(); m2.Unlock() })
		Join(a)
		Join(b)
		return "ok"
	}
	got, _ := outcomes(t, 0, true, prog)
	if keys(got) != "ok" {
		t.Fatalf("bound 0: %s", keys(got))
	}
	got, _ = outcomes(t, 1, true, prog)
	if keys(got) != "DEADLOCK,ok" {
		t.Fatalf("bound 1: %s, want DEADLOCK,ok", keys(got))
	}
}

func TestRWMutexWriterPreferenceRecursiveReadDeadlock(t *testing.T) {
	prog := func() string {
		var rw RWMutex
		r := Go("reader", func() { rw.RLock(); Step("between"); rw.RLock(); rw.RUnlock(); rw.RUnlock() })
		w := Go("writer", func() { rw.Lock(); rw.Unlock() })
		Join(r)
		Join(w)
		return "ok"
	}
	got, _ := outcomes(t, 2, true, prog)
	if keys(got) != "DEADLOCK,ok" {
		t.Fatalf("recursive RLock with a pending writer: %s, want DEADLOCK,ok", keys(got))
	}
}

func TestWaitGroupNegativeAndBarrier(t *testing.T) {
	got, _ := outcomes(t, 1, true, func() string {
		var wg WaitGroup
		wg.Done()
		return "ok"
	})
	if !strings.HasPrefix(keys(got), "PANIC:") {
		t.Fatalf("negative counter: %s", keys(got))
	}
	got, _ = outcomes(t, 1000, true, func() string {
		var wg WaitGroup
		v := NewVar("v", 0)
		wg.Add(2)
		for i := 0; i < 2; i++ {
			Go("w", func() { defer wg.Done(); Step("work") })
		}
		Go("writer", func() {})
		wg.Wait()
		v.Store(1)
		return "ok"
	})
	if keys(got) != "ok" {
		t.Fatalf("wait group barrier: %s", keys(got))
	}
}

func TestChannelsFIFOCloseAndSelect(t *testing.T) {
	got, _ := outcomes(t, 1000, true, func() string {
		ch := make(chan int, 2)
		Go("p", func() { Send(ch, 1); Send(ch, 2); Close(ch) })
		var s []string
		for {
			v, ok := Recv2(ch)
			if !ok {
				break
			}
			s = append(s, fmt.Sprint(v))
		}
		return strings.Join(s, "")
	})
	if keys(got) != "12" {
		t.Fatalf("buffered FIFO: %s", keys(got))
	}
	got, _ = outcomes(t, 1000, true, func() string {
		a, b := make(chan int, 1), make(chan int, 1)
		Send(a, 1)
		Send(b, 2)
		i, v, _ := Select(false, RecvCase(a), RecvCase(b))
		return fmt.Sprint(i, v)
	})
	if keys(got) != "0 1,1 2" {
		t.Fatalf("select with two ready arms must take either: %s", keys(got))
	}
	got, _ = outcomes(t, 1000, true, func() string {
		ch := make(chan int)
		Go("c", func() { Close(ch) })
		Send(ch, 1)
		return "sent"
	})
	if !strings.Contains(keys(got), "PANIC:send on closed channel") {
		t.Fatalf("send vs close on an unbuffered channel: %s", keys(got))
	}
	got, _ = outcomes(t, 1000, true, func() string {
		ch := make(chan int) // unbuffered: rendezvous
		var got Cell[int]
		r := Go("r", func() { got.Set(Recv(ch)) })
		Send(ch, 7)
		Join(r)
		return fmt.Sprint(got.Get())
	})
	if keys(got) != "7" {
		t.Fatalf("rendezvous: %s", keys(got))
	}
	got, _ = outcomes(t, 1000, true, func() string {
		var nilch chan int
		i, _, _ := Select(true, RecvCase(nilch))
		return fmt.Sprint(i)
	})
	if keys(got) != "-1" {
		t.Fatalf("nil channel with default: %s", keys(got))
	}
}

func TestVirtualTimeAndContexts(t *testing.T) {
	got, _ := outcomes(t, 1000, true, func() string {
		t0 := VNow()
		Sleep(5 * time.Second)
		c := After(time.Hour)
		Recv(c)
		return fmt.Sprint(time.Duration(VNow() - t0))
	})
	if keys(got) != "1h0m5s" {
		t.Fatalf("virtual clock: %s", keys(got))
	}
	got, _ = outcomes(t, 1000, true, func() string {
		ctx, cancel := WithCancel(context.Background())
		Go("canceller", func() { Sleep(time.Second); cancel() })
		i, _, _ := Select(false, RecvCase(After(time.Hour)), RecvCase(ctx.Done()))
		return fmt.Sprint(i, ctx.Err(), time.Duration(VNow()))
	})
	if keys(got) != "1 context canceled 1s" {
		t.Fatalf("cancel interrupts a wait: %s", keys(got))
	}
	got, _ = outcomes(t, 1000, true, func() string {
		ctx, _ := WithTimeout(context.Background(), time.Second)
		i, _, _ := Select(false, RecvCase(After(time.Second)), RecvCase(ctx.Done()))
		return fmt.Sprint(i)
	})
	if keys(got) != "0,1" {
		t.Fatalf("timer and deadline due at the same instant must be taken in both orders: %s", keys(got))
	}
}

func TestRaceDetector(t *testing.T) {
	var x int
	racy := func() string {
		a := Go("a", func() { Write(unsafe.Pointer(&x), "x") })
		Write(unsafe.Pointer(&x), "x")
		Join(a)
		return "done"
	}
	got, _ := outcomes(t, 1, true, racy)
	if !strings.Contains(keys(got), "+RACE") {
		t.Fatalf("unsynchronised writes not flagged: %s", keys(got))
	}
	for name, prog := range map[string]func() string{
		"mutex": func() string {
			var mu Mutex
			a := Go("a", func() { mu.Lock(); Write(unsafe.Pointer(&x), "x"); mu.Unlock() })
			mu.Lock()
			Write(unsafe.Pointer(&x), "x")
			mu.Unlock()
			Join(a)
			return "done"
		},
		"channel": func() string {
			ch := make(chan int, 1)
			Go("a", func() { Write(unsafe.Pointer(&x), "x"); Send(ch, 1) })
			Recv(ch)
			Read(unsafe.Pointer(&x), "x")
			return "done"
		},
		"spawn-join": func() string {
			Write(unsafe.Pointer(&x), "x")
			a := Go("a", func() { Write(unsafe.Pointer(&x), "x") })
			Join(a)
			Read(unsafe.Pointer(&x), "x")
			return "done"
		},
		"waitgroup": func() string {
			var wg WaitGroup
			wg.Add(1)
			Go("a", func() { Write(unsafe.Pointer(&x), "x"); wg.Done() })
			wg.Wait()
			Read(unsafe.Pointer(&x), "x")
			return "done"
		},
	} {
		got, _ := outcomes(t, 1000, true, prog)
		if keys(got) != "done" {
			t.Fatalf("%s-synchronised accesses flagged or failed: %s", name, keys(got))
		}
	}
	// RWMutex: two readers do not race, a reader and an unlocked writer do
	got, _ = outcomes(t, 1000, true, func() string {
		var rw RWMutex
		a := Go("a", func() { rw.RLock(); Read(unsafe.Pointer(&x), "x"); rw.RUnlock() })
		Write(unsafe.Pointer(&x), "x") // no lock
		Join(a)
		return "done"
	})
	if !strings.Contains(keys(got), "+RACE") {
		t.Fatalf("reader vs unlocked writer not flagged: %s", keys(got))
	}
}

// Merging must never change the set of outcomes, only the work.
func TestMergingPreservesOutcomeSets(t *testing.T) {
	progs := map[string]func() string{
		"three-incrementers": func() string {
			var x Cell[int]
			var mu Mutex
			var order []string
			var ths []*Thread
			for i := 0; i < 3; i++ {
				i := i
				ths = append(ths, Go("t", func() {
					mu.Lock()
					x.Set(x.Get() + 1)
					order = append(order, fmt.Sprint(i))
					mu.Unlock()
					Yield()
				}))
			}
			for _, th := range ths {
				Join(th)
			}
			return strings.Join(order, "") + fmt.Sprint(x.Get())
		},
		"producer-consumers": func() string {
			ch := make(chan int, 1)
			var sum [2]Cell[int]
			var wg WaitGroup
			wg.Add(2)
			for c := 0; c < 2; c++ {
				c := c
				Go("c", func() {
					defer wg.Done()
					for {
						v, ok := Recv2(ch)
						if !ok {
							return
						}
						sum[c].Set(sum[c].Get() + v)
					}
				})
			}
			for i := 1; i <= 3; i++ {
				Send(ch, i)
			}
			Close(ch)
			wg.Wait()
			return fmt.Sprint(sum[0].Get(), sum[1].Get())
		},
	}
	for name, p := range progs {
		a, sa := outcomes(t, 1000, false, p)
		b, sb := outcomes(t, 1000, true, p)
		if keys(a) != keys(b) {
			t.Fatalf("%s: outcome sets differ: unmerged %s, merged %s", name, keys(a), keys(b))
		}
		if sb.Executions > sa.Executions {
			t.Fatalf("%s: merging increased the work (%d > %d)", name, sb.Executions, sa.Executions)
		}
		t.Logf("%s: %d outcomes; executions unmerged %d, merged %d (states %d)", name, len(a), sa.Executions, sb.Executions, sb.States)
	}
}

func TestPollLoopFairnessAndLivelock(t *testing.T) {
	got, _ := outcomes(t, 1, true, func() string {
		ch := make(chan int, 1)
		Go("p", func() { Step("work"); Send(ch, 1) })
		for {
			if i, _, _ := Select(true, RecvCase(ch)); i == 0 {
				return "got"
			}
		}
	})
	if keys(got) != "got" {
		t.Fatalf("poll loop with a producer: %s", keys(got))
	}
	got, _ = outcomes(t, 1, true, func() string {
		ch := make(chan int, 1)
		for {
			if i, _, _ := Select(true, RecvCase(ch)); i == 0 {
				return "got"
			}
		}
	})
	if keys(got) != "DEADLOCK" {
		t.Fatalf("poll loop that can never succeed must be reported as livelock: %s", keys(got))
	}
}

func TestCondWaitSignalBroadcast(t *testing.T) {
	got, _ := outcomes(t, 1000, true, func() string {
		var mu Mutex
		c := NewCond(&mu)
		ready := false
		var woke Cell[int]
		var ths []*Thread
		for i := 0; i < 2; i++ {
			ths = append(ths, Go("waiter", func() {
				mu.Lock()
				for !ready {
					c.Wait()
				}
				woke.Set(woke.Get() + 1)
				mu.Unlock()
			}))
		}
		mu.Lock()
		ready = true
		c.Broadcast()
		mu.Unlock()
		for _, th := range ths {
			Join(th)
		}
		return fmt.Sprint(woke.Get())
	})
	if keys(got) != "2" {
		t.Fatalf("broadcast wakes all: %s", keys(got))
	}
	// a lost wake-up: Signal before the waiter waits, flag not re-checked under the lock
	got, _ = outcomes(t, 2, true, func() string {
		var mu Mutex
		c := NewCond(&mu)
		w := Go("waiter", func() { mu.Lock(); c.Wait(); mu.Unlock() })
		c.Signal()
		Join(w)
		return "ok"
	})
	if keys(got) != "DEADLOCK,ok" {
		t.Fatalf("signal-before-wait must be able to deadlock: %s", keys(got))
	}
}

// A thread that is about to receive on an unbuffered channel is not yet a parked receiver: a
// non-blocking send scheduled in that window takes its default arm.  The window exists only in
// Arrive mode, which Explore must switch on by itself when it sees the non-blocking send.
func TestArriveWindowForNonBlockingSend(t *testing.T) {
	body := func() string {
		ch := make(chan int)
		var ready Cell[int]
		var got Cell[string]
		w := Go("receiver", func() {
			ready.Set(1)
			Recv(ch)
		})
		Block("ready", func() bool { return ready.Peek() == 1 })
		ready.Get()
		if i, _, _ := Select(true, SendCase(ch, 1)); i == 0 {
			got.Set("handed-over")
			Join(w)
		} else {
			got.Set("dropped")
		}
		return got.Get()
	}
	for _, merge := range []bool{false, true} {
		out, st := outcomes(t, 1000, merge, body)
		if keys(out) != "dropped,handed-over" || !st.ArriveMode {
			t.Fatalf("merge=%v: outcomes %s arrive=%v, want both and the mode switched on", merge, keys(out), st.ArriveMode)
		}
		// and a violation recorded in that mode replays from its own choice list
		var last string
		st2 := Explore(Options{Bound: 1000, Merge: merge}, func() { last = body() }, func(x *Execution) (string, []string) {
			if last == "dropped" {
				return last, []string{"dropped: receiver never served"}
			}
			return "ok", nil
		})
		if len(st2.Violations) == 0 || st2.Violations[0].Choices[0] != ArriveMarker {
			t.Fatalf("expected a violation carrying the arrive marker, got %+v", st2.Violations)
		}
		st3 := Explore(Options{Bound: 1000, Prefix: st2.Violations[0].Choices, Once: true}, func() { last = body() }, func(x *Execution) (string, []string) {
			if last == "dropped" {
				return last, []string{"dropped"}
			}
			return "ok", nil
		})
		if len(st3.Violations) != 1 {
			t.Fatalf("replay of an arrive-mode violation did not reproduce it")
		}
	}
	// programs without non-blocking operations on unbuffered channels never pay for the mode
	_, st := outcomes(t, 1000, true, func() string {
		ch := make(chan int)
		w := Go("receiver", func() { Recv(ch) })
		Send(ch, 1)
		Join(w)
		return "ok"
	})
	if st.ArriveMode {
		t.Fatalf("arrive mode switched on without need")
	}
}
