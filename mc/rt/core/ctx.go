package core

// ctx.go: cancel / deadline contexts on the virtual clock.  They implement
// context.Context, so flyt (which only calls Err, Done, Deadline, Value on the
// interface) is unchanged.

import (
	"context"
	"time"
)

type Ctx struct {
	parent   context.Context
	done     chan struct{}
	err      error
	deadline time.Time
	hasDl    bool
	children []*Ctx
	vc       VC
	tm       *timer
	after    []*afterFuncEntry
	h        objHdr
	// ErrCalls counts Err() invocations (observability for harnesses).
	ErrCalls int
}

func newCtx(parent context.Context) *Ctx {
	c := &Ctx{parent: parent, done: make(chan struct{})}
	if p, ok := parent.(*Ctx); ok {
		if p.err != nil {
			c.err = p.err
			close(c.done)
			if s := S; s != nil {
				m := s.model(chanPtr(c.done), 0, c.done)
				m.closed = true
				m.closeVC = p.vc.clone()
				c.vc = p.vc.clone()
			}
		} else {
			p.children = append(p.children, c)
		}
		if p.hasDl {
			c.deadline, c.hasDl = p.deadline, true
		}
	}
	return c
}

func (c *Ctx) Deadline() (time.Time, bool) { return c.deadline, c.hasDl }
func (c *Ctx) Done() <-chan struct{}       { return c.done }
func (c *Ctx) Value(key any) any {
	if c.parent != nil {
		return c.parent.Value(key)
	}
	return nil
}

// ErrIsPoint: Err() is a scheduling point (a real context's Err takes a lock / does an atomic
// load).  This lets a cancellation land between a "has it been cancelled?" check and the
// operation that follows it.
var ErrIsPoint = true

// Err observes the cancellation state; observing a cancellation is an acquire of the
// canceller's clock.
func (c *Ctx) Err() error {
	c.ErrCalls++
	if s := S; s != nil && !s.aborting.Load() {
		if c.h.init(s) {
			s.seed(&c.h.chain, c.h.id)
		}
		if ErrIsPoint && len(s.threads) > 1 {
			s.point(&op{kind: "ctx.Err", obj: c.h.id, enabled: func() bool { return true }})
		}
		s.touch(&c.h.chain, 1)
		if c.err != nil {
			s.cur.acquire(c.vc)
		}
	}
	return c.err
}

func (c *Ctx) cancel(err error, point bool) {
	s := S
	if s != nil && point {
		s.point(&op{kind: "ctx.cancel", enabled: func() bool { return true }})
	}
	c.cancelNow(err)
}

func (c *Ctx) cancelNow(err error) { c.cancelBy(err, nil) }

// CtxAfterFunc mirrors context.AfterFunc for controlled contexts: f runs in its own thread once
// the context is done; stop reports whether it prevented f from running.
func CtxAfterFunc(ctx context.Context, f func()) (stop func() bool) {
	c, ok := ctx.(*Ctx)
	if !ok || S == nil {
		return context.AfterFunc(ctx, f)
	}
	if c.err != nil {
		Go("ctx.AfterFunc", f)
		return func() bool { return false }
	}
	e := &afterFuncEntry{f: f}
	c.after = append(c.after, e)
	return func() bool {
		if s := S; s != nil {
			s.point(&op{kind: "ctx.AfterFunc.stop", obj: c.h.id, enabled: func() bool { return true }})
		}
		if e.started || e.stopped {
			return false
		}
		e.stopped = true
		return true
	}
}

type afterFuncEntry struct {
	f                func()
	started, stopped bool
}

func (c *Ctx) cancelBy(err error, by VC) {
	if c.err != nil {
		return
	}
	c.err = err
	close(c.done)
	if s := S; s != nil {
		c.h.init(s)
		if s.cur != nil {
			s.touch(&c.h.chain, 2)
		}
		m := s.model(chanPtr(c.done), 0, c.done)
		m.closed = true
		if s.cur != nil {
			s.touch(&m.chain, 3)
		}
		if by != nil {
			m.closeVC.join(by)
		} else if s.cur != nil {
			s.cur.release(&m.closeVC)
		}
		c.vc = m.closeVC.clone()
		if c.tm != nil {
			c.tm.stopped = true
		}
	}
	if s := S; s != nil && s.cur != nil && !s.aborting.Load() {
		for _, e := range c.after {
			if !e.stopped && !e.started {
				e.started = true
				Go("ctx.AfterFunc", e.f)
			}
		}
	}
	for _, ch := range c.children {
		ch.cancelBy(err, by)
	}
}

// WithCancel: cancel() is a scheduling point when called under the scheduler.
func WithCancel(parent context.Context) (*Ctx, context.CancelFunc) {
	c := newCtx(parent)
	return c, func() { c.cancel(context.Canceled, true) }
}

// CancelInline cancels without a scheduling point (used when a callback
// cancels "from inside" and the harness wants the cancellation to land exactly
// there).
func (c *Ctx) CancelInline(err error) { c.cancel(err, false) }

func WithDeadline(parent context.Context, d time.Time) (*Ctx, context.CancelFunc) {
	c := newCtx(parent)
	if !c.hasDl || d.Before(c.deadline) {
		c.deadline, c.hasDl = d, true
	}
	if s := S; s != nil && c.err == nil {
		dur := c.deadline.Sub(Now())
		if dur <= 0 {
			c.cancelNow(context.DeadlineExceeded)
		} else {
			c.tm = s.addTimer(dur, nil, nil)
			c.tm.fn = nil
			tm := c.tm
			// deadline expiry runs as a timer callback without a thread
			tm.ch = nil
			s.deadlines = append(s.deadlines, deadlineEntry{tm: tm, c: c})
		}
	}
	return c, func() { c.cancel(context.Canceled, true) }
}

func WithTimeout(parent context.Context, d time.Duration) (*Ctx, context.CancelFunc) {
	return WithDeadline(parent, Now().Add(d))
}

type deadlineEntry struct {
	tm *timer
	c  *Ctx
}
