package core

// sync.go: models of sync.Mutex, sync.RWMutex, sync.WaitGroup, sync.Once with
// the same API.  Outside a controlled execution they delegate to the real
// primitives (passthrough), so the rewritten package stays a valid program.

import (
	"sync"
)

type objHdr struct {
	ep    uint64
	id    int
	chain chain
}

func (h *objHdr) init(s *Sched) bool {
	if h.ep != epochCounter {
		h.ep = epochCounter
		h.id = s.newObj()
		s.seed(&h.chain, h.id)
		return true
	}
	return false
}

// ---------------------------------------------------------------- Mutex

type Mutex struct {
	real   sync.Mutex
	h      objHdr
	locked bool
	vc     VC
}

func (m *Mutex) reset(s *Sched) {
	if m.h.init(s) {
		m.locked = false
		m.vc = nil
	}
}

func (m *Mutex) Lock() {
	s := S
	if s == nil {
		m.real.Lock()
		return
	}
	m.reset(s)
	s.point(&op{kind: "Mutex.Lock", obj: m.h.id, enabled: func() bool { return !m.locked }})
	m.locked = true
	s.cur.acquire(m.vc)
	s.touch(&m.h.chain, 1)
}

func (m *Mutex) TryLock() bool {
	s := S
	if s == nil {
		return m.real.TryLock()
	}
	m.reset(s)
	s.point(&op{kind: "Mutex.TryLock", obj: m.h.id, enabled: func() bool { return true }})
	s.touch(&m.h.chain, 3)
	if m.locked {
		s.cur.polled = true
		return false
	}
	m.locked = true
	s.cur.acquire(m.vc)
	return true
}

func (m *Mutex) Unlock() {
	s := S
	if s == nil {
		m.real.Unlock()
		return
	}
	if s.aborting.Load() {
		panic(abortPanic{})
	}
	m.reset(s)
	if !m.locked {
		panic("sync: unlock of unlocked mutex")
	}
	s.cur.release(&m.vc)
	m.locked = false
	s.touch(&m.h.chain, 2)
}

// ---------------------------------------------------------------- RWMutex

// RWMutex models Go's writer preference: once a writer has announced itself
// (step 1 of Lock) new readers are held back until it has come and gone.
type RWMutex struct {
	real    sync.RWMutex
	h       objHdr
	readers int
	writer  bool // a writer holds or has announced (pending) the lock
	held    bool // the writer actually holds it
	wvc     VC   // released by writers (and acquired by everyone)
	rvc     VC   // released by readers (acquired by writers)
}

func (m *RWMutex) reset(s *Sched) {
	if m.h.init(s) {
		m.readers, m.writer, m.held, m.wvc, m.rvc = 0, false, false, nil, nil
	}
}

func (m *RWMutex) Lock() {
	s := S
	if s == nil {
		m.real.Lock()
		return
	}
	m.reset(s)
	s.point(&op{kind: "RWMutex.Lock", obj: m.h.id, enabled: func() bool { return !m.writer }})
	m.writer = true
	s.touch(&m.h.chain, 1)
	if m.readers > 0 {
		s.point(&op{kind: "RWMutex.LockWait", obj: m.h.id, enabled: func() bool { return m.readers == 0 }})
	}
	m.held = true
	s.cur.acquire(m.wvc)
	s.cur.acquire(m.rvc)
	s.touch(&m.h.chain, 2)
}

func (m *RWMutex) TryLock() bool {
	s := S
	if s == nil {
		return m.real.TryLock()
	}
	m.reset(s)
	s.point(&op{kind: "RWMutex.TryLock", obj: m.h.id, enabled: func() bool { return true }})
	s.touch(&m.h.chain, 3)
	if m.writer || m.readers > 0 {
		return false
	}
	m.writer, m.held = true, true
	s.cur.acquire(m.wvc)
	s.cur.acquire(m.rvc)
	return true
}

func (m *RWMutex) Unlock() {
	s := S
	if s == nil {
		m.real.Unlock()
		return
	}
	if s.aborting.Load() {
		panic(abortPanic{})
	}
	m.reset(s)
	if !m.held {
		panic("sync: Unlock of unlocked RWMutex")
	}
	s.cur.release(&m.wvc)
	m.writer, m.held = false, false
	s.touch(&m.h.chain, 4)
}

func (m *RWMutex) RLock() {
	s := S
	if s == nil {
		m.real.RLock()
		return
	}
	m.reset(s)
	s.point(&op{kind: "RWMutex.RLock", obj: m.h.id, enabled: func() bool { return !m.writer }})
	m.readers++
	s.cur.acquire(m.wvc)
	s.touch(&m.h.chain, 5)
}

func (m *RWMutex) TryRLock() bool {
	s := S
	if s == nil {
		return m.real.TryRLock()
	}
	m.reset(s)
	s.point(&op{kind: "RWMutex.TryRLock", obj: m.h.id, enabled: func() bool { return true }})
	s.touch(&m.h.chain, 6)
	if m.writer {
		return false
	}
	m.readers++
	s.cur.acquire(m.wvc)
	return true
}

func (m *RWMutex) RUnlock() {
	s := S
	if s == nil {
		m.real.RUnlock()
		return
	}
	if s.aborting.Load() {
		panic(abortPanic{})
	}
	m.reset(s)
	if m.readers <= 0 {
		panic("sync: RUnlock of unlocked RWMutex")
	}
	s.cur.release(&m.rvc)
	m.readers--
	s.touch(&m.h.chain, 7)
}

type rlocker RWMutex

func (r *rlocker) Lock()   { (*RWMutex)(r).RLock() }
func (r *rlocker) Unlock() { (*RWMutex)(r).RUnlock() }

func (m *RWMutex) RLocker() sync.Locker { return (*rlocker)(m) }

// ---------------------------------------------------------------- WaitGroup

type WaitGroup struct {
	real sync.WaitGroup
	h    objHdr
	n    int
	vc   VC
}

func (w *WaitGroup) reset(s *Sched) {
	if w.h.init(s) {
		w.n, w.vc = 0, nil
	}
}

func (w *WaitGroup) Add(delta int) {
	s := S
	if s == nil {
		w.real.Add(delta)
		return
	}
	w.reset(s)
	kind := "WaitGroup.Add"
	if delta < 0 {
		kind = "WaitGroup.Done"
	}
	s.point(&op{kind: kind, obj: w.h.id, enabled: func() bool { return true }})
	if delta < 0 {
		s.cur.release(&w.vc)
	}
	s.touch(&w.h.chain, uint64(delta)+100)
	w.n += delta
	if w.n < 0 {
		panic("sync: negative WaitGroup counter")
	}
}

func (w *WaitGroup) Done() { w.Add(-1) }

func (w *WaitGroup) Wait() {
	s := S
	if s == nil {
		w.real.Wait()
		return
	}
	w.reset(s)
	s.point(&op{kind: "WaitGroup.Wait", obj: w.h.id, enabled: func() bool { return w.n == 0 }})
	s.cur.acquire(w.vc)
	s.touch(&w.h.chain, 9)
}

// Go is Go 1.25's WaitGroup.Go, provided for forward compatibility.
func (w *WaitGroup) Go(f func()) {
	w.Add(1)
	Go("wg.Go", func() {
		defer w.Done()
		f()
	})
}

// ---------------------------------------------------------------- Once

type Once struct {
	real sync.Once
	m    Mutex
	done bool
	h    objHdr
}

func (o *Once) Do(f func()) {
	s := S
	if s == nil {
		o.real.Do(f)
		return
	}
	if o.h.init(s) {
		o.done = false
	}
	o.m.Lock()
	defer o.m.Unlock()
	if !o.done {
		defer func() { o.done = true }()
		f()
	}
}

// ---------------------------------------------------------------- atomics

// AtomicOp is a scheduling point for an atomic memory operation on obj; the
// caller performs the operation right after.  Atomics are sequentially
// consistent and synchronise (release+acquire on a per-object clock).
type AtomicCell struct {
	h  objHdr
	vc VC
}

func (a *AtomicCell) Sync(kind string) {
	s := S
	if s == nil {
		return
	}
	if a.h.init(s) {
		a.vc = nil
	}
	s.point(&op{kind: kind, obj: a.h.id, enabled: func() bool { return true }})
	s.cur.acquire(a.vc)
	s.cur.release(&a.vc)
	s.touch(&a.h.chain, 1)
}

// ---------------------------------------------------------------- Cond

// Cond models sync.Cond: Wait atomically unlocks L and parks the caller until
// a Signal/Broadcast picks it, then re-acquires L.  Which waiter a Signal
// wakes is an explorer choice.
type Cond struct {
	L       sync.Locker
	real    *sync.Cond
	h       objHdr
	waiters []*condWaiter
	vc      VC
}

type condWaiter struct {
	t     *Thread
	woken bool
}

func NewCond(l sync.Locker) *Cond { return &Cond{L: l} }

func (c *Cond) passthrough() *sync.Cond {
	if c.real == nil {
		c.real = sync.NewCond(c.L)
	}
	return c.real
}

func (c *Cond) reset(s *Sched) {
	if c.h.init(s) {
		c.waiters, c.vc = nil, nil
	}
}

func (c *Cond) Wait() {
	s := S
	if s == nil {
		c.passthrough().Wait()
		return
	}
	c.reset(s)
	w := &condWaiter{t: s.cur}
	c.waiters = append(c.waiters, w)
	s.touch(&c.h.chain, 1)
	c.L.Unlock()
	s.point(&op{kind: "Cond.Wait", obj: c.h.id, enabled: func() bool { return w.woken }})
	s.cur.acquire(c.vc)
	s.touch(&c.h.chain, 2)
	c.L.Lock()
}

func (c *Cond) Signal() {
	s := S
	if s == nil {
		c.passthrough().Signal()
		return
	}
	c.reset(s)
	s.point(&op{kind: "Cond.Signal", obj: c.h.id, enabled: func() bool { return true }})
	s.cur.release(&c.vc)
	s.touch(&c.h.chain, 3)
	var idx []int
	for i, w := range c.waiters {
		if !w.woken {
			idx = append(idx, i)
		}
	}
	if len(idx) == 0 {
		return
	}
	k := 0
	if len(idx) > 1 {
		k = Choose(len(idx))
	}
	c.waiters[idx[k]].woken = true
	c.compact()
}

func (c *Cond) Broadcast() {
	s := S
	if s == nil {
		c.passthrough().Broadcast()
		return
	}
	c.reset(s)
	s.point(&op{kind: "Cond.Broadcast", obj: c.h.id, enabled: func() bool { return true }})
	s.cur.release(&c.vc)
	s.touch(&c.h.chain, 4)
	for _, w := range c.waiters {
		w.woken = true
	}
	c.waiters = nil
}

func (c *Cond) compact() {
	live := c.waiters[:0]
	for _, w := range c.waiters {
		if !w.woken {
			live = append(live, w)
		}
	}
	c.waiters = live
}

// ---------------------------------------------------------------- Pool

// Pool: see vsync.Pool.
type Pool struct {
	New   func() any
	h     objHdr
	real  sync.Mutex
	ep    uint64
	items []any
}

func (p *Pool) sync(kind string) {
	if s := S; s != nil && !s.aborting.Load() {
		p.h.init(s)
		s.point(&op{kind: kind, obj: p.h.id, enabled: func() bool { return true }})
		s.touch(&p.h.chain, 7)
	}
}

func (p *Pool) Get() any {
	p.sync("pool.Get")
	p.real.Lock()
	if p.ep != epochCounter { // a new execution: the pool starts empty
		p.ep, p.items = epochCounter, nil
	}
	var v any
	if n := len(p.items); n > 0 {
		v, p.items = p.items[n-1], p.items[:n-1]
		p.real.Unlock()
		return v
	}
	p.real.Unlock()
	if p.New != nil {
		return p.New()
	}
	return nil
}

func (p *Pool) Put(v any) {
	if v == nil {
		return
	}
	p.sync("pool.Put")
	p.real.Lock()
	if p.ep != epochCounter {
		p.ep, p.items = epochCounter, nil
	}
	p.items = append(p.items, v)
	p.real.Unlock()
}
