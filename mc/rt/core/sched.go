package core

// sched.go: cooperative scheduler.  Every registered thread is a real
// goroutine that runs only while it holds the single run token.  Before each
// synchronisation step the running thread publishes its pending operation and
// lets the explorer decide who proceeds.

import (
	"fmt"
	"runtime/debug"
	"sort"
	"strings"
	"sync/atomic"
	"unsafe"
)

type abortPanic struct{}

// op is a pending synchronisation step of a parked thread.
type op struct {
	kind    string
	obj     int
	free    bool // switching away from a thread parked here costs no deviation
	quiesce bool // enabled only when nothing else can run and no timer is pending
	enabled func() bool
	owner   *Thread
	// channel operations (so partners can inspect / complete them)
	cases     []chanCase
	completed bool // a rendezvous partner already performed case `doneIdx`
	doneIdx   int
	doneVal   any
	doneOk    bool
}

// Thread is one controlled goroutine.
type Thread struct {
	id      int
	name    string
	resume  chan struct{}
	exited  chan struct{}
	pend    *op
	done    bool
	started bool // has been given the token at least once
	vc      VC
	s       *Sched
	nev     uint32 // events executed so far
	polled  bool   // the thread's last step was a poll that found nothing (select default, failed TryLock)
	chain   chain  // thread-local object: progress + values returned by Choose
}

func (t *Thread) ID() int      { return t.id }
func (t *Thread) Name() string { return t.name }
func (t *Thread) Done() bool   { return t.done }

// Sched is the state of one execution.
type Sched struct {
	arrive                  bool // Options.Arrive
	nbSend, nbRecv, anySend bool // non-blocking / any operations seen on unbuffered channels
	threads                 []*Thread
	cur                     *Thread
	aborting                atomic.Bool
	finished                chan struct{}
	finOnce                 bool
	steps                   int
	horizon                 int
	x                       *Execution
	clock                   int64
	timers                  []*timer
	spins                   int
	atEnd                   []func()
	lonelyPolls             int
	deadlines               []deadlineEntry
	sig                     chain
	monSig                  chain
	mon                     map[string]int64
	timeChain               chain
	visited                 map[chain]int16
	bound                   int
	merge                   bool
	chans                   map[unsafe.Pointer]*chanModel
	nextObj                 int
	locs                    map[unsafe.Pointer]*locState
	trace                   bool
}

// S is the scheduler of the execution in progress; nil in passthrough mode
// (the rewritten package then behaves exactly like the original).
var S *Sched

var epochCounter uint64

// Active reports whether a controlled execution is in progress.
func Active() bool { return S != nil }

func (s *Sched) newObj() int { s.nextObj++; return s.nextObj }

func (s *Sched) newThread(name string) *Thread {
	t := &Thread{id: len(s.threads), name: name, resume: make(chan struct{}, 1), exited: make(chan struct{}), s: s}
	s.threads = append(s.threads, t)
	if len(s.threads) > s.x.Threads {
		s.x.Threads = len(s.threads)
	}
	return t
}

func (s *Sched) finish() {
	if !s.finOnce {
		s.finOnce = true
		close(s.finished)
	}
}

// abortNow marks the execution as over; every thread unwinds with abortPanic.
func (s *Sched) abortNow() {
	s.aborting.Store(true)
	s.finish()
}

func runOne(opts Options, body func()) *Execution {
	epochCounter++
	s := &Sched{finished: make(chan struct{}), horizon: opts.Horizon, x: &Execution{}, chans: map[unsafe.Pointer]*chanModel{}, locs: map[unsafe.Pointer]*locState{}, trace: true, mon: map[string]int64{}, visited: ex.visited, bound: opts.Bound, merge: opts.Merge, arrive: opts.Arrive}
	if s.horizon == 0 {
		s.horizon = 20000
	}
	S = s
	t0 := s.newThread("main")
	t0.vc = VC{1}
	s.seed(&t0.chain, 1<<20)
	s.cur = t0
	go t0.run(body)
	t0.started = true
	t0.resume <- struct{}{}
	<-s.finished
	// Tear down: the thread holding the token first, then the parked ones, one
	// at a time so that unwinding code never runs concurrently.
	s.aborting.Store(true)
	if c := s.cur; c != nil {
		<-c.exited
	}
	for i := 0; i < len(s.threads); i++ { // threads may not grow during abort
		t := s.threads[i]
		select {
		case <-t.exited:
			continue
		default:
		}
		t.resume <- struct{}{}
		<-t.exited
	}
	S = nil
	for _, f := range s.atEnd {
		f()
	}
	s.x.Steps = s.steps
	s.x.VTime = s.clock
	s.x.NeedArrive = s.nbSend || (s.nbRecv && s.anySend)
	return s.x
}

func (t *Thread) run(fn func()) {
	s := t.s
	defer close(t.exited)
	<-t.resume
	if s.aborting.Load() {
		return
	}
	defer func() {
		if r := recover(); r != nil {
			if _, ok := r.(abortPanic); ok {
				return
			}
			if s.aborting.Load() {
				return
			}
			s.x.Panic = fmt.Sprintf("thread %d (%s): panic: %v", t.id, t.name, r)
			s.logf("PANIC %v\n%s", r, trimStack(string(debug.Stack())))
			s.abortNow()
		}
	}()
	fn()
	if s.aborting.Load() {
		return
	}
	t.done = true
	t.vcTick()
	s.touch(&t.chain, 0xd0e)
	if t.id == 0 {
		s.finish()
		return
	}
	s.dispatch(t)
}

func trimStack(st string) string {
	lines := strings.Split(st, "\n")
	var out []string
	for _, l := range lines {
		if strings.Contains(l, ".go:") && !strings.Contains(l, "zzvrt/core") && !strings.Contains(l, "/runtime/") {
			l = strings.TrimSpace(l)
			if i := strings.Index(l, " +0x"); i >= 0 {
				l = l[:i]
			}
			if i := strings.LastIndex(l, "/"); i >= 0 {
				l = l[i+1:]
			}
			out = append(out, l)
		}
		if len(out) > 12 {
			break
		}
	}
	return strings.Join(out, " | ")
}

// Go starts fn as a new controlled thread.
func Go(name string, fn func()) *Thread {
	s := S
	if s == nil {
		go fn()
		return nil
	}
	if s.aborting.Load() {
		panic(abortPanic{})
	}
	parent := s.cur
	t := s.newThread(name)
	t.vc = parent.vc.clone()
	t.vcTickSelf()
	parent.vcTick()
	t.chain = mixChain(chain{}, uint64(parent.id)+1, uint64(parent.nev), uint64(t.id)+0x60)
	s.sig.add(t.chain)
	s.touch(&parent.chain, 0x60)
	t.pend = &op{kind: "start", enabled: func() bool { return true }}
	go t.run(fn)
	return t
}

// Join blocks until t has finished.
func Join(t *Thread) {
	s := S
	if s == nil || t == nil {
		return
	}
	s.point(&op{kind: "join", obj: -t.id, enabled: func() bool { return t.done }})
	s.cur.vc.join(t.vc)
}

// Yield is a scheduling point at which switching to another thread is free.
func Yield() {
	if s := S; s != nil {
		s.point(&op{kind: "yield", free: true, enabled: func() bool { return true }})
	}
}

// Step is a scheduling point with the normal preemption cost.
func Step(kind string) {
	if s := S; s != nil {
		s.point(&op{kind: kind, enabled: func() bool { return true }})
	}
}

// Block parks the calling thread until cond holds (a scheduler-visible wait).
func Block(kind string, cond func() bool) {
	if s := S; s != nil {
		s.point(&op{kind: kind, enabled: cond})
	}
}

// WaitQuiescent parks the caller until no other thread can make progress and
// no timer is pending, then returns the descriptions of threads still alive.
func WaitQuiescent() []string {
	s := S
	if s == nil {
		return nil
	}
	s.point(&op{kind: "quiesce", quiesce: true, enabled: func() bool { return true }})
	var live []string
	for _, t := range s.threads {
		if !t.done && t != s.cur && !strings.HasPrefix(t.name, "harness:") {
			d := fmt.Sprintf("thread %d (%s)", t.id, t.name)
			if t.pend != nil {
				d += " blocked at " + t.pend.kind
			}
			live = append(live, d)
		}
	}
	s.x.Leaked = live
	return live
}

// CurThread returns the id of the running thread (0 in passthrough mode).
func CurThread() int {
	if s := S; s != nil {
		return s.cur.id
	}
	return 0
}

// NumThreads returns how many threads were created so far in this execution.
func NumThreads() int {
	if s := S; s != nil {
		return len(s.threads)
	}
	return 1
}

// LiveThreads returns the number of unfinished threads other than the caller.
func LiveThreads() int {
	s := S
	if s == nil {
		return 0
	}
	n := 0
	for _, t := range s.threads {
		if !t.done && t != s.cur {
			n++
		}
	}
	return n
}

// point publishes the caller's pending operation and lets the explorer pick who runs.
func (s *Sched) point(o *op) {
	if s.aborting.Load() {
		panic(abortPanic{})
	}
	t := s.cur
	s.steps++
	if s.steps > s.horizon {
		s.x.Horizon = true
		s.abortNow()
		panic(abortPanic{})
	}
	o.owner = t
	t.pend = o
	s.dispatch(t)
	t.pend = nil
	if t.polled {
		t.polled = false
		s.spins = s.lonelyPolls
		if s.spins > 300 {
			s.x.Deadlock = "livelock: 300 consecutive polls found nothing to do while no other thread could make progress; " + s.describeBlocked()
			s.logf("LIVELOCK %s", s.x.Deadlock)
			s.abortNow()
			panic(abortPanic{})
		}
	} else {
		s.spins, s.lonelyPolls = 0, 0
	}
	t.nev++
	s.touch(&t.chain, 0x11)
}

func (s *Sched) opEnabled(t *Thread) bool {
	o := t.pend
	if o == nil || t.done {
		return false
	}
	if o.completed {
		return true
	}
	return o.enabled()
}

// dispatch chooses the next thread to run.  `from` is the thread giving up the
// token (parked at from.pend, or finished).
func (s *Sched) dispatch(from *Thread) {
	for {
		var en []*Thread
		fromEnabled := false
		// fairness for polling loops: a thread whose last step was a poll that found
		// nothing yields — the others come first in the canonical order and switching
		// to them is free (otherwise a spin loop would unroll up to the horizon)
		yielding := !from.done && from.polled
		if !from.done && from.pend != nil && !from.pend.quiesce && s.opEnabled(from) {
			fromEnabled = true
			if !yielding {
				en = append(en, from)
			}
		}
		for _, t := range s.threads {
			if t == from || t.done || t.pend == nil || t.pend.quiesce {
				continue
			}
			if s.opEnabled(t) {
				en = append(en, t)
			}
		}
		if fromEnabled && yielding {
			if len(en) == 0 {
				s.lonelyPolls++ // nobody else can run: the poll loop is the only activity
			}
			en = append(en, from)
		}
		if len(en) == 0 {
			if s.advanceTime() {
				continue
			}
			// only quiescence waiters may remain
			for _, t := range s.threads {
				if !t.done && t.pend != nil && t.pend.quiesce {
					en = append(en, t)
				}
			}
			if len(en) > 1 {
				sort.Slice(en, func(i, j int) bool { return en[i].id < en[j].id })
			}
		}
		if len(en) == 0 {
			s.x.Deadlock = s.describeBlocked()
			s.logf("DEADLOCK %s", s.x.Deadlock)
			s.abortNow()
			if from.done {
				return
			}
			panic(abortPanic{})
		}
		idx := 0
		if len(en) > 1 && s.merge && ex != nil && len(ex.pts) >= len(ex.prefix) {
			key := s.stateKey(from, fromEnabled)
			rem := int16(s.bound - ex.cost)
			if rem > 30000 || s.bound > 30000 {
				rem = 30000
			}
			if old, ok := s.visited[key]; ok && old >= rem+1 {
				s.x.Pruned = true
				s.abortNow()
				if from.done {
					return
				}
				panic(abortPanic{})
			}
			s.visited[key] = rem + 1
		}
		if len(en) > 1 {
			var costs []int
			if fromEnabled && yielding {
				// staying on a thread that just polled in vain, although others can run, is a deviation
				costs = make([]int, len(en))
				costs[len(en)-1] = 1
			} else if fromEnabled && !from.pend.free {
				costs = make([]int, len(en))
				for i := 1; i < len(en); i++ {
					costs[i] = 1
				}
			}
			sig := uint64(from.id)*131 + 17
			for _, t := range en {
				sig = sig*1000003 + uint64(t.id)*97 + hashStr(t.pend.kind) + uint64(t.pend.obj+1000)*7
			}
			idx = choose(len(en), costs, sig)
		}
		next := en[idx]
		if next == from {
			return
		}
		s.cur = next
		next.started = true
		next.resume <- struct{}{}
		if from.done {
			return
		}
		<-from.resume
		if s.aborting.Load() {
			panic(abortPanic{})
		}
		return
	}
}

func (s *Sched) describeBlocked() string {
	var parts []string
	for _, t := range s.threads {
		if t.done {
			continue
		}
		k := "running"
		if t.pend != nil {
			k = fmt.Sprintf("%s#%d", t.pend.kind, t.pend.obj)
		}
		parts = append(parts, fmt.Sprintf("T%d(%s)@%s", t.id, t.name, k))
	}
	return strings.Join(parts, " ")
}

// logf records an event lazily: formatting happens only if somebody reads the log.
func (s *Sched) logf(format string, a ...any) {
	tid := -1
	if s.cur != nil {
		tid = s.cur.id
	}
	s.x.log = append(s.x.log, logEntry{tid: tid, clock: s.clock, format: format, args: a})
}

type logEntry struct {
	tid    int
	clock  int64
	format string
	args   []any
}

// RenderLog formats the event log (call after the execution is over).
func (x *Execution) RenderLog() []string {
	if x.Log == nil && len(x.log) > 0 {
		x.Log = make([]string, len(x.log))
		for i, e := range x.log {
			x.Log[i] = fmt.Sprintf("[T%d t=%d] ", e.tid, e.clock) + addrRE.ReplaceAllString(fmt.Sprintf(e.format, e.args...), "0x…") // heap addresses differ from run to run
		}
	}
	return x.Log
}

// Logf appends a line to the execution's event log.
func Logf(format string, a ...any) {
	if s := S; s != nil {
		if s.aborting.Load() {
			return
		}
		s.logf(format, a...)
	}
}

// Aborting reports whether the current execution is being torn down (harness
// callbacks can use it to avoid touching shared state while unwinding).
func Aborting() bool {
	s := S
	return s != nil && s.aborting.Load()
}

// AtEnd registers a clean-up to run (on the driver goroutine) once the current
// execution is over and all its threads have exited.
func AtEnd(f func()) {
	if s := S; s != nil {
		s.atEnd = append(s.atEnd, f)
	}
}
