package core

import (
	"cmp"
	"regexp"
	"sort"
)

// state.go: state keys for merging equivalent prefixes.
//
// The key of a prefix is its happens-before signature: for every
// synchronisation object (and every harness-declared shared cell) the ordered
// sequence of (thread, event#) that touched it, plus the monitor state the
// oracle reads.  Two prefixes with equal signatures are the same Mazurkiewicz
// trace — same per-object operation orders, hence same object states, same
// values returned to every thread, same thread-local states — so they have
// the same futures.  A prefix is pruned only if the same key was already
// expanded with at least the same remaining deviation budget and the same
// running thread.

type chain [2]uint64

func mix64(x uint64) uint64 {
	x ^= x >> 33
	x *= 0xff51afd7ed558ccd
	x ^= x >> 33
	x *= 0xc4ceb9fe1a85ec53
	x ^= x >> 33
	return x
}

func mixChain(c chain, a, b, d uint64) chain {
	v := a*0x9e3779b97f4a7c15 + b*0xbf58476d1ce4e5b9 + d*0x94d049bb133111eb
	return chain{
		mix64(c[0]^v) + 0x632be59bd9b4e019,
		mix64(c[1]+v*0xd6e8feb86659fd93) ^ 0x2545f4914f6cdd1d,
	}
}

func (c *chain) add(o chain) { c[0] += o[0]; c[1] += o[1] }
func (c *chain) sub(o chain) { c[0] -= o[0]; c[1] -= o[1] }

// touch appends the running thread's current event to an object's chain.
func (s *Sched) touch(c *chain, opc uint64) {
	t := s.cur
	s.sig.sub(*c)
	*c = mixChain(*c, uint64(t.id)+1, uint64(t.nev), opc)
	s.sig.add(*c)
}

func (s *Sched) seed(c *chain, id int) {
	*c = mixChain(chain{}, uint64(id), 0x5eed, 0)
	s.sig.add(*c)
}

// stateKey at a scheduling point where `from` gives up the token.
func (s *Sched) stateKey(from *Thread, fromEnabled bool) chain {
	k := s.sig
	k.add(s.monSig)
	b := uint64(0)
	if fromEnabled {
		b = 1
	}
	return mixChain(k, uint64(from.id)+1, b, uint64(s.clock))
}

// ---- monitor state: what the oracle remembers about the past.  It is part
// of the state key, so prefixes that the oracle could tell apart are never
// merged.

func monHash(k string, v int64) chain {
	h := hashStr(k)
	return mixChain(chain{h, ^h}, uint64(v), 0x303, 1)
}

// MonSet records oracle-relevant state under key k.
func MonSet(k string, v int64) {
	s := S
	if s == nil || s.aborting.Load() {
		return
	}
	if old, ok := s.mon[k]; ok {
		s.monSig.sub(monHash(k, old))
	}
	s.mon[k] = v
	s.monSig.add(monHash(k, v))
}

func MonGet(k string) int64 {
	if s := S; s != nil {
		return s.mon[k]
	}
	return 0
}

func MonAdd(k string, d int64) int64 {
	v := MonGet(k) + d
	MonSet(k, v)
	return v
}

// Problem records an oracle complaint about the current execution.
var addrRE = regexp.MustCompile(`0xc[0-9a-f]{6,}`)

func Problem(format string, a ...any) {
	s := S
	if s == nil || s.aborting.Load() {
		return
	}
	msg := addrRE.ReplaceAllString(sprintf(format, a...), "0x…") // heap addresses differ from run to run: a complaint must replay verbatim
	s.x.Problems = append(s.x.Problems, msg)
	s.logf("PROBLEM %s", msg)
}

// Cell is a harness-side shared variable: every access is an event on the
// cell (so interleavings that order accesses differently are distinct states)
// but not a scheduling point and not race-checked.
type Cell[T any] struct {
	v T
	h objHdr
}

func (c *Cell[T]) touch(opc uint64) {
	s := S
	if s == nil || s.aborting.Load() {
		return
	}
	if c.h.init(s) {
		s.seed(&c.h.chain, c.h.id)
	}
	s.touch(&c.h.chain, opc)
}

func (c *Cell[T]) Get() T { c.touch(1); return c.v }

// Peek reads without recording an event: for use inside Block conditions only.
func (c *Cell[T]) Peek() T { return c.v }
func (c *Cell[T]) Set(v T) { c.touch(2); c.v = v }

// RangeKeys returns the keys of m in the order a rewritten `for range m`
// visits them.  Go's map iteration order is random; here it is sorted, and
// under the scheduler the starting point of the (cyclic) order is an explorer
// choice costing one deviation, so replays are deterministic and order
// dependence is still explored.
func RangeKeys[M ~map[K]V, K cmp.Ordered, V any](m M) []K {
	keys := make([]K, 0, len(m))
	for k := range m {
		keys = append(keys, k)
	}
	sort.Slice(keys, func(i, j int) bool { return keys[i] < keys[j] })
	if s := S; s != nil && len(keys) > 1 && !s.aborting.Load() {
		n := len(keys)
		if n > 4 {
			n = 4
		}
		if r := ChooseCost(n, 1); r > 0 {
			keys = append(keys[r:], keys[:r]...)
		}
	}
	return keys
}

// NoFinalizer stands in for runtime.SetFinalizer in the rewritten sources: the finalizer is never
// run (an execution Go permits), so nothing happens behind the scheduler's back.
func NoFinalizer(obj, finalizer any) int { return 0 }

// Scratch returns a fresh object for the neutralised runtime.SetFinalizer(Scratch(…), nil) call.
func Scratch(int) *int { return new(int) }
