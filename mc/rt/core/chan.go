package core

// chan.go: Go channel semantics over a model kept in the scheduler.  The real
// channel value is only an identity key (and supplies its capacity); its
// contents live here, so enabledness is exact and `select` arms are explorer
// choices instead of coin flips.

import (
	"reflect"
	"unsafe"
)

type chanItem struct {
	v  any
	vc VC
}

type chanModel struct {
	id      int
	cap     int
	buf     []chanItem
	closed  bool
	closeVC VC
	recvVC  VC // join of receivers' clocks (k-th recv happens-before (k+cap)-th send completes)
	sends   int
	pin     any // keeps the real channel alive so its address is not reused
	chain   chain
}

type chanCase struct {
	ch   *chanModel // nil: nil channel, never ready
	send bool
	val  any
}

func chanPtr[C any](ch C) unsafe.Pointer { return *(*unsafe.Pointer)(unsafe.Pointer(&ch)) }

func (s *Sched) model(p unsafe.Pointer, capacity int, pin any) *chanModel {
	if p == nil {
		return nil
	}
	m := s.chans[p]
	if m == nil {
		m = &chanModel{id: s.newObj(), cap: capacity, pin: pin}
		s.seed(&m.chain, m.id)
		s.chans[p] = m
	}
	return m
}

// ready reports whether case c of thread t could proceed now.
func (s *Sched) caseReady(t *Thread, c chanCase) bool {
	m := c.ch
	if m == nil {
		return false
	}
	if c.send {
		if m.closed || len(m.buf) < m.cap {
			return true
		}
		return m.cap == 0 && s.partner(t, m, false) != nil
	}
	if len(m.buf) > 0 || m.closed {
		return true
	}
	return m.cap == 0 && s.partner(t, m, true) != nil
}

// partner finds a parked thread (other than t) with a pending, not yet
// completed, send (wantSend) or receive on m.
func (s *Sched) partner(t *Thread, m *chanModel, wantSend bool) *Thread {
	for _, u := range s.threads {
		if u == t || u.done || u.pend == nil || u.pend.completed {
			continue
		}
		for _, c := range u.pend.cases {
			if c.ch == m && c.send == wantSend {
				return u
			}
		}
	}
	return nil
}

func (s *Sched) partners(t *Thread, m *chanModel, wantSend bool) (us []*Thread, idx []int) {
	for _, u := range s.threads {
		if u == t || u.done || u.pend == nil || u.pend.completed {
			continue
		}
		for i, c := range u.pend.cases {
			if c.ch == m && c.send == wantSend {
				us = append(us, u)
				idx = append(idx, i)
				break
			}
		}
	}
	return
}

// doCase performs case c for the running thread (which must be ready).
func (s *Sched) doCase(c chanCase) (val any, ok bool) {
	t := s.cur
	m := c.ch
	if c.send {
		s.touch(&m.chain, 1)
		if m.closed {
			panic("send on closed channel")
		}
		if m.cap == 0 {
			us, idx := s.partners(t, m, false)
			k := 0
			if len(us) > 1 {
				k = Choose(len(us))
			}
			u := us[k]
			u.pend.completed, u.pend.doneIdx, u.pend.doneVal, u.pend.doneOk = true, idx[k], c.val, true
			// rendezvous synchronises both ways
			u.vc.join(t.vc)
			t.vc.join(u.vc)
			t.vcTickSelf()
			u.vcTickSelf()
			return nil, true
		}
		it := chanItem{v: c.val}
		t.release(&it.vc)
		m.sends++
		if m.sends > m.cap {
			t.acquire(m.recvVC)
		}
		m.buf = append(m.buf, it)
		return nil, true
	}
	s.touch(&m.chain, 2)
	if len(m.buf) > 0 {
		it := m.buf[0]
		m.buf = m.buf[1:]
		t.acquire(it.vc)
		t.release(&m.recvVC)
		return it.v, true
	}
	if m.cap == 0 {
		us, idx := s.partners(t, m, true)
		if len(us) > 0 {
			k := 0
			if len(us) > 1 {
				k = Choose(len(us))
			}
			u := us[k]
			v := u.pend.cases[idx[k]].val
			u.pend.completed, u.pend.doneIdx = true, idx[k]
			u.vc.join(t.vc)
			t.vc.join(u.vc)
			t.vcTickSelf()
			u.vcTickSelf()
			return v, true
		}
	}
	if m.closed {
		t.acquire(m.closeVC)
		return nil, false
	}
	panic("core: doCase on a case that is not ready")
}

// chanOp runs a (possibly multi-way) channel operation.  Returns the index of
// the case performed (-1 = default).
func (s *Sched) chanOp(kind string, cases []chanCase, hasDefault bool) (int, any, bool) {
	obj := 0
	for _, c := range cases {
		if c.ch != nil {
			obj = obj*31 + c.ch.id
		}
	}
	rendezvous := false
	for _, c := range cases {
		if c.ch != nil && c.ch.cap == 0 && !c.ch.closed {
			rendezvous = true
			if c.send {
				s.anySend = true
			}
			if hasDefault {
				if c.send {
					s.nbSend = true
				} else {
					s.nbRecv = true
				}
			}
		}
	}
	if rendezvous && !hasDefault && s.arrive {
		// not yet parked: a non-blocking partner operation scheduled now finds nobody
		s.point(&op{kind: "chan.arrive", obj: obj, enabled: func() bool { return true }})
	}
	o := &op{kind: kind, obj: obj, cases: cases}
	o.enabled = func() bool {
		if hasDefault {
			return true
		}
		t := o.owner
		for _, c := range cases {
			if s.caseReady(t, c) {
				return true
			}
		}
		return false
	}
	s.point(o)
	if o.completed {
		if m := cases[o.doneIdx].ch; m != nil {
			s.touch(&m.chain, 4)
		}
		return o.doneIdx, o.doneVal, o.doneOk
	}
	var ready []int
	for i, c := range cases {
		if s.caseReady(s.cur, c) {
			ready = append(ready, i)
		}
	}
	if len(ready) == 0 {
		if hasDefault {
			s.cur.polled = true
			return -1, nil, false
		}
		panic("core: chanOp scheduled while not ready")
	}
	k := 0
	if len(ready) > 1 {
		k = Choose(len(ready)) // which ready arm a select takes is an explorer choice
	}
	i := ready[k]
	v, ok := s.doCase(cases[i])
	return i, v, ok
}

// ---- typed entry points used by the rewritten source

func Send[T any](ch chan<- T, v T) {
	s := S
	if s == nil {
		ch <- v
		return
	}
	m := s.model(chanPtr(ch), cap(ch), ch)
	s.chanOp("chan.send", []chanCase{{ch: m, send: true, val: v}}, false)
}

func Recv[T any](ch <-chan T) T {
	v, _ := Recv2(ch)
	return v
}

func Recv2[T any](ch <-chan T) (T, bool) {
	s := S
	if s == nil {
		v, ok := <-ch
		return v, ok
	}
	m := s.model(chanPtr(ch), cap(ch), ch)
	_, v, ok := s.chanOp("chan.recv", []chanCase{{ch: m}}, false)
	return SelVal(ch, v), ok
}

func Close[T any](ch chan<- T) {
	s := S
	if s == nil {
		close(ch)
		return
	}
	if ch == nil {
		panic("close of nil channel")
	}
	m := s.model(chanPtr(ch), cap(ch), ch)
	s.point(&op{kind: "chan.close", obj: m.id, enabled: func() bool { return true }})
	s.closeModel(m)
}

func (s *Sched) closeModel(m *chanModel) {
	if m.closed {
		panic("close of closed channel")
	}
	m.closed = true
	s.cur.release(&m.closeVC)
	s.touch(&m.chain, 3)
}

func Len[T any](ch <-chan T) int {
	s := S
	if s == nil {
		return len(ch)
	}
	m := s.model(chanPtr(ch), cap(ch), ch)
	if m == nil {
		return 0
	}
	return len(m.buf)
}

func Cap[T any](ch <-chan T) int { return cap(ch) }

// SelCase describes one arm of a rewritten select statement.
type SelCase struct {
	p    unsafe.Pointer
	cap  int
	pin  any
	send bool
	val  any
	rch  reflect.Value // for passthrough
}

func RecvCase[T any](ch <-chan T) SelCase {
	return SelCase{p: chanPtr(ch), cap: cap(ch), pin: ch, rch: reflect.ValueOf(ch)}
}

func SendCase[T any](ch chan<- T, v T) SelCase {
	return SelCase{p: chanPtr(ch), cap: cap(ch), pin: ch, send: true, val: v, rch: reflect.ValueOf(ch)}
}

// Select performs a select over cs.  It returns the index of the arm taken
// (-1 for default), and for receive arms the value and ok flag.
func Select(hasDefault bool, cs ...SelCase) (int, any, bool) {
	s := S
	if s == nil {
		return realSelect(hasDefault, cs)
	}
	cases := make([]chanCase, len(cs))
	for i, c := range cs {
		cases[i] = chanCase{ch: s.model(c.p, c.cap, c.pin), send: c.send, val: c.val}
	}
	return s.chanOp("select", cases, hasDefault)
}

func realSelect(hasDefault bool, cs []SelCase) (int, any, bool) {
	rc := make([]reflect.SelectCase, 0, len(cs)+1)
	for _, c := range cs {
		if c.send {
			rc = append(rc, reflect.SelectCase{Dir: reflect.SelectSend, Chan: c.rch, Send: reflect.ValueOf(c.val)})
		} else {
			rc = append(rc, reflect.SelectCase{Dir: reflect.SelectRecv, Chan: c.rch})
		}
	}
	if hasDefault {
		rc = append(rc, reflect.SelectCase{Dir: reflect.SelectDefault})
	}
	i, v, ok := reflect.Select(rc)
	if hasDefault && i == len(cs) {
		return -1, nil, false
	}
	if cs[i].send {
		return i, nil, true
	}
	if !ok {
		return i, nil, false
	}
	return i, v.Interface(), true
}

// SelVal converts the value returned by Select for a receive arm on ch.
func SelVal[T any](ch <-chan T, v any) T {
	if v == nil {
		var z T
		return z
	}
	return v.(T)
}
