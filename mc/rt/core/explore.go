// Package core is the controlled runtime and stateless explorer used to model
// check mark3labs/flyt.  It is overlaid INTO flyt's module path
// (github.com/mark3labs/flyt/zzvrt/core) at check time; nothing of it is
// committed to /repo.
//
// explore.go: depth-first enumeration of choice sequences with deviation
// bounding.  Every leaf of the choice tree is one complete execution of the
// real code.
package core

import (
	"fmt"
	"hash/fnv"
	"os"
	"sort"
	"strings"
	"sync/atomic"
	"time"
)

// point is one recorded choice point of an execution.
type point struct {
	n      int   // number of alternatives
	choice int   // alternative taken
	costs  []int // deviation cost of each alternative (costs[0]==0 by construction)
	sig    uint64
}

// Options configure one exploration.
type Options struct {
	Name     string
	Bound    int       // max total deviation cost of an execution (preemptions)
	Horizon  int       // max scheduling steps per execution (0 = default 20000)
	MaxExec  int64     // cap on executions (0 = none); hitting it sets Capped
	Deadline time.Time // wall-clock budget; hitting it sets Capped (never a violation)
	Prefix   []int     // forced prefix (replay / sharding)
	Once     bool      // run exactly one execution (replay)
	Trace    bool      // keep the event log of every execution (else only on violation)
	Merge    bool      // merge prefixes with equal happens-before signature (state.go)
	// Arrive: a blocking operation on an unbuffered channel is split into "arrive" and "park":
	// a thread that is about to receive is not yet a parked receiver.  The difference is
	// observable only by non-blocking operations (select with default) on such a channel, so the
	// mode is switched on by Explore itself the first time an execution performs one (the
	// exploration restarts); replays carry it as a leading ArriveMarker in the choice list.
	Arrive bool
}

// ArriveMarker as first element of a choice list selects Options.Arrive on replay.
const ArriveMarker = -7

// Execution is what one run of the body looked like.
type Execution struct {
	Choices  []int
	Cost     int
	Steps    int
	Deadlock string   // non-empty: description of blocked threads
	Panic    string   // non-empty: panic value + thread
	Races    []string // HB data races seen
	Horizon  bool
	Leaked   []string // set by WaitQuiescent
	Problems []string // oracle complaints recorded while running (core.Problem)
	Pruned   bool     // cut short: reached a state already expanded (Merge)
	// NeedArrive: this execution did a non-blocking send (or a non-blocking receive while sends
	// exist) on an unbuffered channel, so Options.Arrive matters for it
	NeedArrive bool
	Log        []string
	log        []logEntry
	VTime      int64 // final virtual time (ns)
	Threads    int
}

// Violation is a property failure on one execution.
type Violation struct {
	Msgs    []string `json:"msgs"`
	Choices []int    `json:"choices"`
	Cost    int      `json:"cost"`
	Log     []string `json:"log"`
}

// Stats summarises an exploration.
type Stats struct {
	ArriveMode    bool // explored with Options.Arrive (see there)
	Executions    int64
	Transitions   int64         // scheduling steps + choice points executed
	TreeNodes     int64         // distinct choice-tree prefixes visited (states of the unfolded execution tree)
	ByCost        map[int]int64 // executions per total deviation cost
	Outcomes      map[string]int64
	MaxDepth      int
	Capped        bool
	CapReason     string
	Deadlocks     int64
	Races         int64
	Panics        int64
	HorizonHits   int64
	Violations    []Violation
	MaxThreads    int
	Pruned        int64 // executions cut at an already-expanded state
	States        int64 // distinct state keys (Merge)
	SampleLog     []string
	SampleChoices []int
}

func (s *Stats) Merge(o *Stats) {
	s.Executions += o.Executions
	s.Transitions += o.Transitions
	s.TreeNodes += o.TreeNodes
	if s.ByCost == nil {
		s.ByCost = map[int]int64{}
	}
	for k, v := range o.ByCost {
		s.ByCost[k] += v
	}
	if s.Outcomes == nil {
		s.Outcomes = map[string]int64{}
	}
	for k, v := range o.Outcomes {
		s.Outcomes[k] += v
	}
	if o.MaxDepth > s.MaxDepth {
		s.MaxDepth = o.MaxDepth
	}
	if o.Capped {
		s.Capped = true
		s.CapReason = o.CapReason
	}
	s.Deadlocks += o.Deadlocks
	s.Pruned += o.Pruned
	s.States += o.States
	s.Pruned += o.Pruned
	s.States += o.States
	s.Races += o.Races
	s.Panics += o.Panics
	s.HorizonHits += o.HorizonHits
	if len(s.Violations) < 20 {
		s.Violations = append(s.Violations, o.Violations...)
	}
	if o.MaxThreads > s.MaxThreads {
		s.MaxThreads = o.MaxThreads
	}
	if s.SampleLog == nil {
		s.SampleLog = o.SampleLog
		s.SampleChoices = o.SampleChoices
	}
}

// explorer state for the execution in progress.
type explorer struct {
	visited map[chain]int16
	prefix  []int
	prevSig []uint64 // signatures of the parent execution, to validate replayed prefixes
	pts     []point
	cost    int
}

var ex *explorer // current; nil outside Explore

// InternalError aborts the process: the machinery itself misbehaved
// (non-determinism while replaying a prefix).  Exit code 2, never a violation.
func InternalError(format string, a ...any) {
	fmt.Fprintf(os.Stderr, "INTERNAL-ERROR "+format+"\n", a...)
	os.Exit(2)
}

// choose records a choice point.  costs[i] is the deviation cost of alternative i.
func choose(n int, costs []int, sig uint64) int {
	if n <= 0 {
		InternalError("choose with n=%d", n)
	}
	e := ex
	if e == nil {
		return 0
	}
	i := len(e.pts)
	c := 0
	if i < len(e.prefix) {
		c = e.prefix[i]
		if c >= n {
			InternalError("replay divergence at choice %d: want alt %d of %d", i, c, n)
		}
		if i < len(e.prevSig) && e.prevSig[i] != sig {
			InternalError("replay divergence at choice %d: signature changed", i)
		}
	}
	pc := 0
	if costs != nil {
		pc = costs[c]
	}
	e.cost += pc
	e.pts = append(e.pts, point{n: n, choice: c, costs: costs, sig: sig})
	return c
}

// Choose is the environment/driver choice: all alternatives are free (fully
// enumerated).  Alternative 0 should be the simplest answer.
func Choose(n int) int {
	if n == 1 {
		return 0
	}
	c := choose(n, nil, uint64(n)*1000003+7)
	noteChoice(c)
	return c
}

func noteChoice(c int) {
	if s := S; s != nil && s.cur != nil && !s.aborting.Load() {
		s.touch(&s.cur.chain, uint64(c)+0xc400)
	}
}

func sprintf(format string, a ...any) string { return fmt.Sprintf(format, a...) }

// ChooseCost is a driver choice whose non-default alternatives cost `cost`
// deviations each.
func ChooseCost(n int, cost int) int {
	if n == 1 {
		return 0
	}
	cs := make([]int, n)
	for i := 1; i < n; i++ {
		cs[i] = cost
	}
	c := choose(n, cs, uint64(n)*1000003+uint64(cost)*31+11)
	noteChoice(c)
	return c
}

func hashStr(s string) uint64 {
	h := fnv.New64a()
	h.Write([]byte(s))
	return h.Sum64()
}

// next computes the next prefix in DFS order, or nil when the tree is exhausted.
// floor is the length of the forced prefix that must not be altered.
func nextPrefix(pts []point, bound int, floor int) []int {
	// cumulative cost before each point
	cum := make([]int, len(pts)+1)
	for i, p := range pts {
		c := 0
		if p.costs != nil {
			c = p.costs[p.choice]
		}
		cum[i+1] = cum[i] + c
	}
	for i := len(pts) - 1; i >= floor; i-- {
		p := pts[i]
		for alt := p.choice + 1; alt < p.n; alt++ {
			c := 0
			if p.costs != nil {
				c = p.costs[alt]
			}
			if cum[i]+c <= bound {
				np := make([]int, i+1)
				for j := 0; j < i; j++ {
					np[j] = pts[j].choice
				}
				np[i] = alt
				return np
			}
		}
	}
	return nil
}

// Explore enumerates every execution of body within opts.Bound and calls
// check on each.  check returns the oracle's complaints (nil = fine) and an
// outcome label used to count distinct observed outcomes.
var execStarted atomic.Int64
var curExploration atomic.Value

// ExecutionsStarted / CurrentExploration: progress indicators for watchdogs.
func ExecutionsStarted() int64 { return execStarted.Load() }
func CurrentExploration() string {
	if s, ok := curExploration.Load().(string); ok {
		return s
	}
	return ""
}

func Explore(opts Options, body func(), check func(x *Execution) (outcome string, problems []string)) *Stats {
	curExploration.Store(opts.Name)
	if len(opts.Prefix) > 0 && opts.Prefix[0] == ArriveMarker {
		opts.Arrive = true
		opts.Prefix = opts.Prefix[1:]
	}
	st := &Stats{ByCost: map[int]int64{}, Outcomes: map[string]int64{}, ArriveMode: opts.Arrive}
	prefix := append([]int(nil), opts.Prefix...)
	floor := len(prefix)
	var prevSig []uint64
	visited := map[chain]int16{}
	defer func() { st.States = int64(len(visited)) }()
	for {
		e := &explorer{prefix: prefix, prevSig: prevSig, visited: visited}
		ex = e
		execStarted.Add(1)
		x := runOne(opts, body)
		ex = nil
		x.Choices = make([]int, len(e.pts))
		for i, p := range e.pts {
			x.Choices[i] = p.choice
		}
		x.Cost = e.cost
		if x.NeedArrive && !opts.Arrive && !opts.Once {
			// everything explored so far is real, but a receiver that has not parked yet was
			// never distinguished from a parked one: start over with the finer model
			opts.Arrive = true
			return Explore(opts, body, check)
		}
		if opts.Arrive {
			x.Choices = append([]int{ArriveMarker}, x.Choices...)
		}
		st.Executions++
		st.Transitions += int64(x.Steps + len(e.pts))
		if st.Executions == 1 {
			st.TreeNodes += int64(len(e.pts) + 1 - floor)
		} else {
			st.TreeNodes += int64(len(e.pts) - (len(prefix) - 1))
		}
		st.ByCost[x.Cost]++
		if len(e.pts) > st.MaxDepth {
			st.MaxDepth = len(e.pts)
		}
		if x.Threads > st.MaxThreads {
			st.MaxThreads = x.Threads
		}
		if x.Deadlock != "" {
			st.Deadlocks++
		}
		if len(x.Races) > 0 {
			st.Races++
		}
		if x.Panic != "" {
			st.Panics++
		}
		if x.Horizon {
			st.HorizonHits++
			st.Capped = true
			st.CapReason = "horizon"
		}
		var outcome string
		var problems []string
		if x.Pruned {
			// an incomplete run: only what was already recorded counts
			st.Pruned++
			problems = append(append(problems, x.Problems...), x.Races...)
		} else {
			outcome, problems = check(x)
			problems = append(append([]string(nil), x.Problems...), problems...)
			st.Outcomes[outcome]++
		}
		if !x.Pruned && (st.SampleLog == nil || (len(x.log) > len(st.SampleLog) && st.Executions < 50)) {
			x.RenderLog()
			st.SampleLog = append([]string(nil), x.Log...)
			st.SampleChoices = append([]int(nil), x.Choices...)
		}
		if len(problems) > 0 && len(st.Violations) < 20 {
			x.RenderLog()
			st.Violations = append(st.Violations, Violation{Msgs: problems, Choices: append([]int(nil), x.Choices...), Cost: x.Cost, Log: append([]string(nil), x.Log...)})
		}
		if opts.Once {
			return st
		}
		if len(st.Violations) >= 5 {
			st.Capped = true
			st.CapReason = "stopped after 5 violations"
			return st
		}
		if opts.MaxExec > 0 && st.Executions >= opts.MaxExec {
			st.Capped = true
			st.CapReason = fmt.Sprintf("max executions %d", opts.MaxExec)
			return st
		}
		if !opts.Deadline.IsZero() && st.Executions%64 == 0 && time.Now().After(opts.Deadline) {
			st.Capped = true
			st.CapReason = "time budget"
			return st
		}
		np := nextPrefix(e.pts, opts.Bound, floor)
		if np == nil {
			return st
		}
		prevSig = make([]uint64, len(e.pts))
		for i, p := range e.pts {
			prevSig[i] = p.sig
		}
		prefix = np
	}
}

// OutcomeKeys returns outcome labels sorted, for evidence.
func (s *Stats) OutcomeKeys() []string {
	ks := make([]string, 0, len(s.Outcomes))
	for k := range s.Outcomes {
		ks = append(ks, k)
	}
	sort.Strings(ks)
	return ks
}

func joinLog(l []string) string { return strings.Join(l, "\n") }
