package core

// time.go: virtual clock.  It advances only when no thread is enabled and a
// timer is pending (to the earliest deadline); thread steps take zero time, so
// measured gaps are exact and a one-hour wait costs nothing.

import (
	"context"
	"sort"
	"time"
)

type timer struct {
	when    int64
	ch      *chanModel // value delivered here when it fires (nil for Sleep / func timers)
	fn      func()     // AfterFunc
	vc      VC
	fired   bool
	stopped bool
	seq     int
}

// Epoch is the wall-clock instant that virtual time 0 maps to.
var Epoch = time.Date(2030, 1, 1, 0, 0, 0, 0, time.UTC)

// VNow returns the virtual time in nanoseconds since the start of the execution.
func VNow() int64 {
	if s := S; s != nil {
		return s.clock
	}
	return 0
}

func (s *Sched) addTimer(d time.Duration, ch *chanModel, fn func()) *timer {
	if d < 0 {
		d = 0
	}
	tm := &timer{when: s.clock + int64(d), ch: ch, fn: fn, vc: s.cur.vc.clone(), seq: len(s.timers)}
	s.cur.vcTickSelf()
	s.timers = append(s.timers, tm)
	chid := 0
	if ch != nil {
		chid = ch.id
	}
	s.sig.sub(s.timeChain)
	s.timeChain = mixChain(s.timeChain, uint64(s.cur.id)+1, uint64(s.cur.nev), uint64(tm.when)*31+uint64(chid))
	s.sig.add(s.timeChain)
	return tm
}

func (s *Sched) pendingTimers() bool {
	for _, tm := range s.timers {
		if !tm.fired && !tm.stopped {
			return true
		}
	}
	return false
}

// advanceTime moves the clock to the earliest pending deadline and fires every
// timer due then.  Returns false when no timer is pending.
func (s *Sched) advanceTime() bool {
	var due []*timer
	min := int64(-1)
	for _, tm := range s.timers {
		if tm.fired || tm.stopped {
			continue
		}
		if min < 0 || tm.when < min {
			min = tm.when
		}
	}
	if min < 0 {
		return false
	}
	if min > s.clock {
		s.clock = min
	}
	s.sig.sub(s.timeChain)
	s.timeChain = mixChain(s.timeChain, 0xadf, uint64(s.clock), 0)
	s.sig.add(s.timeChain)
	for _, tm := range s.timers {
		if !tm.fired && !tm.stopped && tm.when <= s.clock {
			due = append(due, tm)
		}
	}
	sort.Slice(due, func(i, j int) bool { return due[i].seq < due[j].seq })
	for _, tm := range due {
		tm.fired = true
		if tm.ch != nil && len(tm.ch.buf) < tm.ch.cap {
			tm.ch.buf = append(tm.ch.buf, chanItem{v: Epoch.Add(time.Duration(s.clock)), vc: tm.vc})
		}
		if tm.fn != nil {
			fn := tm.fn
			t := s.newThread("AfterFunc")
			t.vc = tm.vc.clone()
			t.vcTickSelf()
			t.pend = &op{kind: "start", enabled: func() bool { return true }}
			go t.run(fn)
		}
	}
	for _, d := range s.deadlines {
		if d.tm.fired && d.c.err == nil {
			d.c.cancelBy(context.DeadlineExceeded, d.tm.vc)
		}
	}
	// compact
	live := s.timers[:0]
	for _, tm := range s.timers {
		if !tm.fired && !tm.stopped {
			live = append(live, tm)
		}
	}
	s.timers = live
	return true
}

// After is time.After on the virtual clock.
func After(d time.Duration) <-chan time.Time {
	s := S
	if s == nil {
		return time.After(d)
	}
	ch := make(chan time.Time, 1)
	m := s.model(chanPtr(ch), 1, ch)
	s.addTimer(d, m, nil)
	return ch
}

// Sleep blocks the calling thread for d of virtual time.
func Sleep(d time.Duration) {
	s := S
	if s == nil {
		time.Sleep(d)
		return
	}
	if d <= 0 {
		s.point(&op{kind: "sleep0", enabled: func() bool { return true }})
		return
	}
	tm := s.addTimer(d, nil, nil)
	s.point(&op{kind: "sleep", enabled: func() bool { return tm.fired }})
}

func Now() time.Time {
	s := S
	if s == nil {
		return time.Now()
	}
	return Epoch.Add(time.Duration(s.clock))
}

// Timer is time.Timer on the virtual clock.
type Timer struct {
	C    <-chan time.Time
	c    chan time.Time
	tm   *timer
	real *time.Timer
	fn   func()
}

func NewTimer(d time.Duration) *Timer {
	s := S
	if s == nil {
		rt := time.NewTimer(d)
		return &Timer{C: rt.C, real: rt}
	}
	ch := make(chan time.Time, 1)
	m := s.model(chanPtr(ch), 1, ch)
	return &Timer{C: ch, c: ch, tm: s.addTimer(d, m, nil)}
}

func AfterFunc(d time.Duration, f func()) *Timer {
	s := S
	if s == nil {
		return &Timer{real: time.AfterFunc(d, f)}
	}
	return &Timer{tm: s.addTimer(d, nil, f), fn: f}
}

func (t *Timer) Stop() bool {
	if t.real != nil {
		return t.real.Stop()
	}
	s := S
	if s == nil {
		return false
	}
	s.point(&op{kind: "timer.stop", enabled: func() bool { return true }})
	s.sig.sub(s.timeChain)
	s.timeChain = mixChain(s.timeChain, uint64(s.cur.id)+1, uint64(s.cur.nev), 0x570b+uint64(t.tm.seq))
	s.sig.add(s.timeChain)
	if t.tm.fired || t.tm.stopped {
		return false
	}
	t.tm.stopped = true
	return true
}

func (t *Timer) Reset(d time.Duration) bool {
	if t.real != nil {
		return t.real.Reset(d)
	}
	s := S
	if s == nil {
		return false
	}
	s.point(&op{kind: "timer.reset", enabled: func() bool { return true }})
	active := !t.tm.fired && !t.tm.stopped
	t.tm.stopped = true
	t.tm = s.addTimer(d, t.tm.ch, t.fn)
	return active
}
