package core

// vc.go: vector clocks and the happens-before data-race detector.  Go's own
// -race is blind under a cooperative scheduler (every hand-off is a
// happens-before edge), so the edges are tracked per synchronisation object
// here and every instrumented memory access is checked against the last
// conflicting one.

import (
	"fmt"
	"unsafe"
)

type VC []int32

func (v VC) clone() VC { return append(VC(nil), v...) }

func (v *VC) join(o VC) {
	for len(*v) < len(o) {
		*v = append(*v, 0)
	}
	for i, c := range o {
		if c > (*v)[i] {
			(*v)[i] = c
		}
	}
}

func (v VC) get(i int) int32 {
	if i < len(v) {
		return v[i]
	}
	return 0
}

func (t *Thread) vcTickSelf() {
	for len(t.vc) <= t.id {
		t.vc = append(t.vc, 0)
	}
	t.vc[t.id]++
}

func (t *Thread) vcTick() { t.vcTickSelf() }

// release: publish the thread's clock into a sync object's clock.
func (t *Thread) release(o *VC) {
	o.join(t.vc)
	t.vcTickSelf()
}

// acquire: learn everything published in a sync object's clock.
func (t *Thread) acquire(o VC) { t.vc.join(o) }

type epoch struct {
	tid int
	c   int32
	who string
}

type locState struct {
	w     epoch
	hasW  bool
	reads []epoch
}

func (s *Sched) access(p unsafe.Pointer, write bool, what string) {
	if p == nil || s.aborting.Load() {
		return
	}
	t := s.cur
	l := s.locs[p]
	if l == nil {
		l = &locState{}
		s.locs[p] = l
	}
	me := epoch{tid: t.id, c: t.vc.get(t.id), who: what}
	if l.hasW && l.w.tid != t.id && l.w.c > t.vc.get(l.w.tid) {
		s.reportRace(what, write, l.w, true)
	}
	if write {
		for _, r := range l.reads {
			if r.tid != t.id && r.c > t.vc.get(r.tid) {
				s.reportRace(what, true, r, false)
			}
		}
		l.w = me
		l.hasW = true
		l.reads = l.reads[:0]
		return
	}
	for i, r := range l.reads {
		if r.tid == t.id {
			l.reads[i] = me
			return
		}
	}
	l.reads = append(l.reads, me)
}

func (s *Sched) reportRace(what string, write bool, other epoch, otherWrite bool) {
	k := func(w bool) string {
		if w {
			return "write"
		}
		return "read"
	}
	msg := fmt.Sprintf("DATA RACE on %s: %s by T%d unordered with %s by T%d (%s)", what, k(write), s.cur.id, k(otherWrite), other.tid, other.who)
	for _, r := range s.x.Races {
		if r == msg {
			return
		}
	}
	s.x.Races = append(s.x.Races, msg)
	s.logf("%s", msg)
}

// Read records a plain (unsynchronised) read of the memory at p.
func Read(p unsafe.Pointer, what string) {
	if s := S; s != nil {
		s.access(p, false, what)
	}
}

// Write records a plain (unsynchronised) write of the memory at p.
func Write(p unsafe.Pointer, what string) {
	if s := S; s != nil {
		s.access(p, true, what)
	}
}

// MapPtr returns the identity of a map's storage (nil for a nil map).
func MapPtr[M ~map[K]V, K comparable, V any](m M) unsafe.Pointer {
	return *(*unsafe.Pointer)(unsafe.Pointer(&m))
}

// Var is a harness-side shared variable whose accesses are race-checked.
type Var[T any] struct {
	v    T
	name string
}

func NewVar[T any](name string, v T) *Var[T] { return &Var[T]{v: v, name: name} }

func (x *Var[T]) Load() T {
	Read(unsafe.Pointer(x), x.name)
	return x.v
}

func (x *Var[T]) Store(v T) {
	Write(unsafe.Pointer(x), x.name)
	x.v = v
}
