// Package vtime has the part of package time's API that code under test may
// use, running on the virtual clock of the controlled runtime.
package vtime

import (
	"time"

	"github.com/mark3labs/flyt/zzvrt/core"
)

type (
	Duration = time.Duration
	Time     = time.Time
	Month    = time.Month
	Weekday  = time.Weekday
	Location = time.Location
	Timer    = core.Timer
)

const (
	Nanosecond  = time.Nanosecond
	Microsecond = time.Microsecond
	Millisecond = time.Millisecond
	Second      = time.Second
	Minute      = time.Minute
	Hour        = time.Hour
	RFC3339     = time.RFC3339
	RFC3339Nano = time.RFC3339Nano
)

var UTC = time.UTC

func After(d Duration) <-chan Time             { return core.After(d) }
func Sleep(d Duration)                         { core.Sleep(d) }
func Now() Time                                { return core.Now() }
func Since(t Time) Duration                    { return core.Now().Sub(t) }
func Until(t Time) Duration                    { return t.Sub(core.Now()) }
func NewTimer(d Duration) *Timer               { return core.NewTimer(d) }
func AfterFunc(d Duration, f func()) *Timer    { return core.AfterFunc(d, f) }
func Unix(sec, nsec int64) Time                { return time.Unix(sec, nsec) }
func ParseDuration(s string) (Duration, error) { return time.ParseDuration(s) }

func Date(year int, month Month, day, hour, min, sec, nsec int, loc *Location) Time {
	return time.Date(year, month, day, hour, min, sec, nsec, loc)
}

// Tick / NewTicker are not supported (periodic timers make the space cyclic).
