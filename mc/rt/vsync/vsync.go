// Package vsync has the API of package sync, backed by the controlled runtime.
package vsync

import (
	"sync"

	"github.com/mark3labs/flyt/zzvrt/core"
)

type (
	Mutex     = core.Mutex
	RWMutex   = core.RWMutex
	WaitGroup = core.WaitGroup
	Once      = core.Once
	Cond      = core.Cond
	Locker    = sync.Locker
)

// OnceFunc mirrors sync.OnceFunc.
func OnceFunc(f func()) func() {
	var o Once
	return func() { o.Do(f) }
}

// Map and Pool are not modelled operation by operation: they are provided as
// the real types (their internal synchronisation is invisible to the
// scheduler, which is sound for code that uses them as a black box but gives
// no scheduling points inside them).
type (
	Map  = sync.Map
	Pool = sync.Pool
)

// OnceValue mirrors sync.OnceValue.
func OnceValue[T any](f func() T) func() T {
	var o Once
	var v T
	return func() T { o.Do(func() { v = f() }); return v }
}

// NewCond mirrors sync.NewCond.
func NewCond(l Locker) *Cond { return core.NewCond(l) }
