// Package vsync has the API of package sync, backed by the controlled runtime.
package vsync

import (
	"sync"

	"github.com/mark3labs/flyt/zzvrt/core"
)

type (
	Mutex     = core.Mutex
	RWMutex   = core.RWMutex
	WaitGroup = core.WaitGroup
	Once      = core.Once
	Locker    = sync.Locker
)

// OnceFunc mirrors sync.OnceFunc.
func OnceFunc(f func()) func() {
	var o Once
	return func() { o.Do(f) }
}
