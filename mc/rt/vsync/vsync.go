// Package vsync has the API of package sync, backed by the controlled runtime.
package vsync

import (
	"sync"

	"github.com/mark3labs/flyt/zzvrt/core"
)

type (
	Mutex     = core.Mutex
	RWMutex   = core.RWMutex
	WaitGroup = core.WaitGroup
	Once      = core.Once
	Cond      = core.Cond
	Locker    = sync.Locker
)

// OnceFunc mirrors sync.OnceFunc.
func OnceFunc(f func()) func() {
	var o Once
	return func() { o.Do(f) }
}

// Map is not modelled operation by operation: it is provided as the real type (its internal
// synchronisation is invisible to the scheduler, which is sound for code that uses it as a black
// box but gives no scheduling points inside it).
type Map = sync.Map

// Pool is a deterministic stand-in for sync.Pool (the real one keeps objects across the
// executions of one process and drops them at the garbage collector's whim, so a program that
// uses one — typically through a package-level variable — would not replay): a LIFO stack that
// never drops anything and starts empty in every execution.  Get and Put are scheduling points.
// "Whatever was put last comes back first" is the behaviour in which a pooled object that was
// not reset properly shows.
type Pool = core.Pool

// OnceValue mirrors sync.OnceValue.
func OnceValue[T any](f func() T) func() T {
	var o Once
	var v T
	return func() T { o.Do(func() { v = f() }); return v }
}

// NewCond mirrors sync.NewCond.
func NewCond(l Locker) *Cond { return core.NewCond(l) }
