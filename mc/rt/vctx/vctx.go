// Package vctx has the API of package context on the virtual clock.
package vctx

import (
	"context"
	"time"

	"github.com/mark3labs/flyt/zzvrt/core"
)

type (
	Context    = context.Context
	CancelFunc = context.CancelFunc
)

var (
	Canceled         = context.Canceled
	DeadlineExceeded = context.DeadlineExceeded
)

func Background() Context { return context.Background() }
func TODO() Context       { return context.TODO() }

func WithCancel(parent Context) (Context, CancelFunc) {
	if !core.Active() {
		return context.WithCancel(parent)
	}
	return core.WithCancel(parent)
}

func WithDeadline(parent Context, d time.Time) (Context, CancelFunc) {
	if !core.Active() {
		return context.WithDeadline(parent, d)
	}
	return core.WithDeadline(parent, d)
}

func WithTimeout(parent Context, d time.Duration) (Context, CancelFunc) {
	if !core.Active() {
		return context.WithTimeout(parent, d)
	}
	return core.WithTimeout(parent, d)
}

func WithValue(parent Context, key, val any) Context { return context.WithValue(parent, key, val) }

func Cause(c Context) error { return context.Cause(c) }

// AfterFunc mirrors context.AfterFunc.
func AfterFunc(ctx Context, f func()) (stop func() bool) { return core.CtxAfterFunc(ctx, f) }

func WithCancelCause(parent Context) (Context, context.CancelCauseFunc) {
	return context.WithCancelCause(parent)
}

func WithoutCancel(parent Context) Context { return context.WithoutCancel(parent) }
