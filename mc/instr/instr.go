// Package instr is the source-to-source instrumentor: it rewrites the
// non-test files of the package in /repo (as they are on disk NOW) so that
// every synchronisation construct goes through the controlled runtime, and
// writes a `go build -overlay` file.  /repo itself is never touched.
package instr

import (
	"bytes"
	"encoding/json"
	"fmt"
	"go/ast"
	"go/importer"
	"go/parser"
	"go/printer"
	"go/token"
	"go/types"
	"os"
	"path/filepath"
	"sort"
	"strconv"
	"strings"

	"golang.org/x/tools/go/ast/astutil"
)

const (
	ModPath  = "github.com/mark3labs/flyt"
	corePath = ModPath + "/zzvrt/core"
	coreName = "zzcore"
)

var importSwap = map[string]string{
	"sync":        ModPath + "/zzvrt/vsync",
	"sync/atomic": ModPath + "/zzvrt/vatomic",
	"time":        ModPath + "/zzvrt/vtime",
	"context":     ModPath + "/zzvrt/vctx",
}

// Forbidden constructs: a hard error, never a silent pass.
var forbiddenImports = map[string]string{
	"C":         "cgo",
	"os/signal": "os/signal",
}

type Config struct {
	RepoDir      string            // /repo
	RtDir        string            // /verif/mc/rt
	ExportGo     string            // /verif/mc/export/zz_verif_export.go ("" = none)
	OutDir       string            // scratch dir for rewritten files and overlay.json
	Rewrite      bool              // false: plain build (only adds the virtual packages)
	Races        bool              // add memory-access events for the HB race detector
	ExtraReplace map[string]string // additional overlay entries (mutants in selftest)
}

type Stats struct {
	Files         int
	GoStmts       int
	ChanOps       int
	Selects       int
	ImportSwaps   int
	Accesses      int
	MapRanges     int
	MapRangesLeft int // map ranges that could not be determinised
}

type Error struct{ Msg string }

func (e *Error) Error() string { return "cannot-instrument: " + e.Msg }

func errf(format string, a ...any) error { return &Error{Msg: fmt.Sprintf(format, a...)} }

// Run instruments the package and writes OutDir/overlay.json.
func Run(cfg Config) (overlayPath string, st Stats, err error) {
	replace := map[string]string{}
	// virtual runtime packages inside flyt's module path
	for _, pkg := range []string{"core", "vsync", "vatomic", "vtime", "vctx"} {
		ents, e := os.ReadDir(filepath.Join(cfg.RtDir, pkg))
		if e != nil {
			return "", st, e
		}
		for _, ent := range ents {
			if strings.HasSuffix(ent.Name(), ".go") && !strings.HasSuffix(ent.Name(), "_test.go") {
				replace[filepath.Join(cfg.RepoDir, "zzvrt", pkg, ent.Name())] = filepath.Join(cfg.RtDir, pkg, ent.Name())
			}
		}
	}
	if cfg.ExportGo != "" {
		replace[filepath.Join(cfg.RepoDir, "zz_verif_export.go")] = cfg.ExportGo
	}
	srcOf := func(path string) string { // honour mutant overlays when reading sources
		if r, ok := cfg.ExtraReplace[path]; ok {
			return r
		}
		return path
	}
	for k, v := range cfg.ExtraReplace {
		replace[k] = v
	}
	if cfg.Rewrite {
		fset := token.NewFileSet()
		ents, e := os.ReadDir(cfg.RepoDir)
		if e != nil {
			return "", st, e
		}
		var files []*ast.File
		var names []string
		for _, ent := range ents {
			n := ent.Name()
			if ent.IsDir() || !strings.HasSuffix(n, ".go") || strings.HasSuffix(n, "_test.go") {
				continue
			}
			full := filepath.Join(cfg.RepoDir, n)
			src, e := os.ReadFile(srcOf(full))
			if e != nil {
				return "", st, e
			}
			f, e := parser.ParseFile(fset, full, src, parser.SkipObjectResolution)
			if e != nil {
				return "", st, errf("parse %s: %v", n, e)
			}
			if hasBuildTagExcluding(src) {
				continue
			}
			files = append(files, f)
			names = append(names, n)
		}
		info := &types.Info{
			Types:      map[ast.Expr]types.TypeAndValue{},
			Uses:       map[*ast.Ident]types.Object{},
			Defs:       map[*ast.Ident]types.Object{},
			Selections: map[*ast.SelectorExpr]*types.Selection{},
			Scopes:     map[ast.Node]*types.Scope{},
		}
		conf := types.Config{Importer: importer.ForCompiler(fset, "source", nil), Error: func(error) {}}
		pkg, terr := conf.Check(ModPath, fset, files, info)
		if terr != nil {
			return "", st, errf("type-check: %v", terr)
		}
		for i, f := range files {
			r := &rewriter{fset: fset, info: info, pkg: pkg, file: f, st: &st, races: cfg.Races}
			if e := r.rewriteFile(); e != nil {
				return "", st, e
			}
			var buf bytes.Buffer
			if e := printer.Fprint(&buf, fset, f); e != nil {
				return "", st, errf("print %s: %v", names[i], e)
			}
			out := filepath.Join(cfg.OutDir, "src", names[i])
			os.MkdirAll(filepath.Dir(out), 0o755)
			if e := os.WriteFile(out, buf.Bytes(), 0o644); e != nil {
				return "", st, e
			}
			replace[filepath.Join(cfg.RepoDir, names[i])] = out
			st.Files++
		}
	}
	ov := struct{ Replace map[string]string }{replace}
	b, _ := json.MarshalIndent(ov, "", " ")
	overlayPath = filepath.Join(cfg.OutDir, "overlay.json")
	if e := os.WriteFile(overlayPath, b, 0o644); e != nil {
		return "", st, e
	}
	return overlayPath, st, nil
}

func hasBuildTagExcluding(src []byte) bool {
	// files guarded by a build tag we do not set (e.g. "ignore") are skipped
	for _, l := range strings.Split(string(src), "\n") {
		l = strings.TrimSpace(l)
		if strings.HasPrefix(l, "package ") {
			break
		}
		if strings.HasPrefix(l, "//go:build ") {
			expr := strings.TrimPrefix(l, "//go:build ")
			if expr == "ignore" || strings.Contains(expr, "!verif") {
				return true
			}
		}
	}
	return false
}

type rewriter struct {
	fset       *token.FileSet
	info       *types.Info
	pkg        *types.Package
	file       *ast.File
	st         *Stats
	races      bool
	needCore   bool
	needUnsafe bool
	skip       map[ast.Node]bool // comm-clause statements handled by the select rewrite
	tmpN       int
	captured   map[*types.Var]bool
	err        error
}

func (r *rewriter) tmp(prefix string) *ast.Ident {
	r.tmpN++
	return ast.NewIdent(fmt.Sprintf("_zz%s%d", prefix, r.tmpN))
}

func (r *rewriter) core(fn string) ast.Expr {
	r.needCore = true
	return &ast.SelectorExpr{X: ast.NewIdent(coreName), Sel: ast.NewIdent(fn)}
}

func (r *rewriter) call(fn string, args ...ast.Expr) *ast.CallExpr {
	return &ast.CallExpr{Fun: r.core(fn), Args: args}
}

func (r *rewriter) fail(n ast.Node, format string, a ...any) {
	if r.err == nil {
		r.err = errf("%s: %s", r.fset.Position(n.Pos()), fmt.Sprintf(format, a...))
	}
}

func (r *rewriter) typeOf(e ast.Expr) types.Type {
	if tv, ok := r.info.Types[e]; ok {
		return tv.Type
	}
	if id, ok := e.(*ast.Ident); ok {
		if o := r.info.Uses[id]; o != nil {
			return o.Type()
		}
		if o := r.info.Defs[id]; o != nil {
			return o.Type()
		}
	}
	return nil
}

func (r *rewriter) isChan(e ast.Expr) bool {
	t := r.typeOf(e)
	if t == nil {
		return false
	}
	_, ok := t.Underlying().(*types.Chan)
	return ok
}

func (r *rewriter) isBuiltin(id *ast.Ident, name string) bool {
	if id.Name != name {
		return false
	}
	_, ok := r.info.Uses[id].(*types.Builtin)
	return ok
}

func (r *rewriter) isPkgName(e ast.Expr) bool {
	id, ok := e.(*ast.Ident)
	if !ok {
		return false
	}
	_, ok = r.info.Uses[id].(*types.PkgName)
	return ok
}

func (r *rewriter) rewriteFile() error {
	f := r.file
	r.skip = map[ast.Node]bool{}
	// imports
	for _, imp := range f.Imports {
		p, _ := strconv.Unquote(imp.Path.Value)
		if what, bad := forbiddenImports[p]; bad {
			return errf("%s: import of %s is not supported", r.fset.Position(imp.Pos()), what)
		}
		if imp.Name != nil && imp.Name.Name == "." {
			if _, sw := importSwap[p]; sw {
				return errf("%s: dot-import of %s", r.fset.Position(imp.Pos()), p)
			}
		}
	}
	if r.races {
		r.instrumentAccesses()
	}
	pre := func(c *astutil.Cursor) bool {
		switch n := c.Node().(type) {
		case *ast.SelectStmt:
			for _, cl := range n.Body.List {
				cc := cl.(*ast.CommClause)
				if cc.Comm == nil {
					continue
				}
				r.skip[cc.Comm] = true
				switch s := cc.Comm.(type) {
				case *ast.ExprStmt:
					r.skip[ast.Unparen(s.X)] = true
				case *ast.AssignStmt:
					if len(s.Rhs) == 1 {
						r.skip[ast.Unparen(s.Rhs[0])] = true
					}
				}
			}
		case *ast.CallExpr:
			// runtime.Gosched & friends: unsupported nondeterminism
			if sel, ok := n.Fun.(*ast.SelectorExpr); ok && r.isPkgName(sel.X) {
				if pn := r.info.Uses[sel.X.(*ast.Ident)].(*types.PkgName); pn != nil {
					ip := pn.Imported().Path()
					if ip == "runtime" && (sel.Sel.Name == "Gosched" || sel.Sel.Name == "Goexit" || sel.Sel.Name == "LockOSThread") {
						r.fail(n, "runtime.%s is not supported", sel.Sel.Name)
					}
					if ip == "reflect" && sel.Sel.Name == "Select" {
						r.fail(n, "reflect.Select is not supported")
					}

				}
			}
		}
		return true
	}
	post := func(c *astutil.Cursor) bool {
		switch n := c.Node().(type) {
		case *ast.GoStmt:
			c.Replace(r.rewriteGo(n))
		case *ast.SendStmt:
			if r.skip[n] {
				return true
			}
			r.st.ChanOps++
			c.Replace(&ast.ExprStmt{X: r.call("Send", n.Chan, n.Value)})
		case *ast.UnaryExpr:
			if n.Op != token.ARROW || r.skip[n] {
				return true
			}
			r.st.ChanOps++
			fn := "Recv"
			switch p := c.Parent().(type) {
			case *ast.AssignStmt:
				if len(p.Lhs) == 2 && len(p.Rhs) == 1 {
					fn = "Recv2"
				}
			case *ast.ValueSpec:
				if len(p.Names) == 2 && len(p.Values) == 1 {
					fn = "Recv2"
				}
			}
			c.Replace(r.call(fn, n.X))
		case *ast.CallExpr:
			// runtime.SetFinalizer(x, f): finalizers run at the garbage collector's whim on a goroutine
			// of its own, or never; "never" is an execution Go allows, and the only one that replays.
			if sel, ok := n.Fun.(*ast.SelectorExpr); ok && sel.Sel.Name == "SetFinalizer" && r.isPkgName(sel.X) {
				if pn, _ := r.info.Uses[sel.X.(*ast.Ident)].(*types.PkgName); pn != nil && pn.Imported().Path() == "runtime" {
					// stays a call of runtime.SetFinalizer (the import remains used) but on a throw-away
					// object with a nil finalizer, which is a no-op; the original operands are kept
					// alive as arguments of a no-op helper so that nothing becomes "declared and not used"
					keep := &ast.CallExpr{Fun: r.core("NoFinalizer"), Args: n.Args}
					n.Args = []ast.Expr{&ast.CallExpr{Fun: r.core("Scratch"), Args: []ast.Expr{keep}}, ast.NewIdent("nil")}
				}
			}
			if id, ok := n.Fun.(*ast.Ident); ok && len(n.Args) == 1 {
				switch {
				case r.isBuiltin(id, "close"):
					r.st.ChanOps++
					n.Fun = r.core("Close")
				case r.isBuiltin(id, "len") && r.isChan(n.Args[0]):
					n.Fun = r.core("Len")
				case r.isBuiltin(id, "cap") && r.isChan(n.Args[0]):
					n.Fun = r.core("Cap")
				}
			}
		case *ast.RangeStmt:
			if r.isChan(n.X) {
				c.Replace(r.rewriteRangeChan(n))
			} else if r.isMapWithOrderedKey(n.X) {
				if rep := r.rewriteRangeMap(n); rep != nil {
					r.st.MapRanges++
					c.Replace(rep)
				} else {
					r.st.MapRangesLeft++
				}
			}
		case *ast.SelectStmt:
			r.st.Selects++
			c.Replace(r.rewriteSelect(n, c))
		}
		return true
	}
	astutil.Apply(f, pre, post)
	if r.err != nil {
		return r.err
	}
	// swap imports last (type info was computed against the originals)
	for _, imp := range f.Imports {
		p, _ := strconv.Unquote(imp.Path.Value)
		if np, ok := importSwap[p]; ok {
			if imp.Name == nil {
				base := p
				if i := strings.LastIndex(p, "/"); i >= 0 {
					base = p[i+1:]
				}
				imp.Name = ast.NewIdent(base)
			}
			imp.Path.Value = strconv.Quote(np)
			r.st.ImportSwaps++
		}
	}
	if r.needCore {
		astutil.AddNamedImport(r.fset, f, coreName, corePath)
	}
	if r.needUnsafe {
		astutil.AddNamedImport(r.fset, f, "zzunsafe", "unsafe")
	}
	f.Comments = nil
	stripDocs(f)
	return nil
}

func stripDocs(f *ast.File) {
	f.Doc = nil
	ast.Inspect(f, func(n ast.Node) bool {
		switch x := n.(type) {
		case *ast.GenDecl:
			x.Doc = nil
		case *ast.FuncDecl:
			x.Doc = nil
		case *ast.TypeSpec:
			x.Doc, x.Comment = nil, nil
		case *ast.ValueSpec:
			x.Doc, x.Comment = nil, nil
		case *ast.Field:
			x.Doc, x.Comment = nil, nil
		case *ast.ImportSpec:
			x.Doc, x.Comment = nil, nil
		}
		return true
	})
}

func (r *rewriter) isMapWithOrderedKey(e ast.Expr) bool {
	t := r.typeOf(e)
	if t == nil {
		return false
	}
	_, ok := t.Underlying().(*types.Map)
	return ok
}

// for k, v := range m { body }   (m a map with an ordered key type)
//
//	=>
//
// for _, k := range core.RangeKeys(m) { v, ok := m[k]; if !ok { continue }; body }
func (r *rewriter) rewriteRangeMap(n *ast.RangeStmt) ast.Stmt {
	mt := r.typeOf(n.X).Underlying().(*types.Map)
	b, ok := mt.Key().Underlying().(*types.Basic)
	if !ok || b.Info()&(types.IsOrdered) == 0 {
		return nil
	}
	switch ast.Unparen(n.X).(type) {
	case *ast.Ident, *ast.SelectorExpr:
	default:
		return nil // the map expression would be evaluated more than once
	}
	key := n.Key
	var pre []ast.Stmt
	kid := r.tmp("k")
	var keyExpr ast.Expr = kid
	if id, ok := key.(*ast.Ident); ok && id.Name != "_" && n.Tok == token.DEFINE {
		keyExpr = ast.NewIdent(id.Name)
		kid = ast.NewIdent(id.Name)
	} else if key != nil && n.Tok == token.ASSIGN {
		if id, ok := key.(*ast.Ident); !ok || id.Name != "_" {
			pre = append(pre, &ast.AssignStmt{Lhs: []ast.Expr{key}, Tok: token.ASSIGN, Rhs: []ast.Expr{ast.NewIdent(kid.Name)}})
		}
	}
	okid := r.tmp("ok")
	var val ast.Expr = ast.NewIdent("_")
	tok := token.DEFINE
	if n.Value != nil {
		if id, isID := n.Value.(*ast.Ident); !isID || id.Name != "_" {
			val = n.Value
			if n.Tok == token.ASSIGN {
				pre = append(pre, &ast.DeclStmt{Decl: &ast.GenDecl{Tok: token.VAR, Specs: []ast.Spec{&ast.ValueSpec{Names: []*ast.Ident{ast.NewIdent(okid.Name)}, Type: ast.NewIdent("bool")}}}})
				tok = token.ASSIGN
			}
		}
	}
	look := &ast.AssignStmt{Lhs: []ast.Expr{val, ast.NewIdent(okid.Name)}, Tok: tok, Rhs: []ast.Expr{&ast.IndexExpr{X: n.X, Index: keyExpr}}}
	skip := &ast.IfStmt{Cond: &ast.UnaryExpr{Op: token.NOT, X: ast.NewIdent(okid.Name)}, Body: &ast.BlockStmt{List: []ast.Stmt{&ast.BranchStmt{Tok: token.CONTINUE}}}}
	body := append(pre, look, skip)
	if v, isID := val.(*ast.Ident); isID && v.Name != "_" && tok == token.DEFINE {
		body = append(body, &ast.AssignStmt{Lhs: []ast.Expr{ast.NewIdent("_")}, Tok: token.ASSIGN, Rhs: []ast.Expr{ast.NewIdent(v.Name)}})
	}
	body = append(body, n.Body.List...)
	return &ast.RangeStmt{Key: ast.NewIdent("_"), Value: kid, Tok: token.DEFINE, X: r.call("RangeKeys", cloneExprAny(n.X)), Body: &ast.BlockStmt{List: body}}
}

func cloneExprAny(e ast.Expr) ast.Expr {
	switch e.(type) {
	case *ast.Ident, *ast.SelectorExpr, *ast.ParenExpr:
		return cloneExpr(e)
	}
	return e
}

// go f(a, b)  =>  { t0, t1 := a, b; core.Go("f", func() { f(t0, t1) }) }
func (r *rewriter) rewriteGo(n *ast.GoStmt) ast.Stmt {
	r.st.GoStmts++
	call := n.Call
	var lhs, rhs []ast.Expr
	name := "go"
	switch fn := call.Fun.(type) {
	case *ast.SelectorExpr:
		name = fn.Sel.Name
		if !r.isPkgName(fn.X) {
			if _, isType := r.info.Types[fn.X]; isType && r.info.Types[fn.X].IsType() {
				break
			}
			t := r.tmp("g")
			lhs = append(lhs, t)
			rhs = append(rhs, fn.X)
			fn.X = ast.NewIdent(t.Name)
		}
	case *ast.Ident:
		name = fn.Name
	case *ast.FuncLit:
		name = "func"
	default:
		t := r.tmp("g")
		lhs = append(lhs, t)
		rhs = append(rhs, call.Fun)
		call.Fun = ast.NewIdent(t.Name)
	}
	for i, a := range call.Args {
		if tv, ok := r.info.Types[a]; ok && (tv.IsNil() || tv.Value != nil) {
			continue // untyped nil and constants stay in place: `g := nil` is not Go, `g := 1` has the wrong type for an int64 parameter
		}
		t := r.tmp("g")
		lhs = append(lhs, t)
		rhs = append(rhs, a)
		call.Args[i] = ast.NewIdent(t.Name)
	}
	var stmts []ast.Stmt
	if len(lhs) > 0 {
		stmts = append(stmts, &ast.AssignStmt{Lhs: lhs, Tok: token.DEFINE, Rhs: rhs})
	}
	lit := &ast.FuncLit{Type: &ast.FuncType{Params: &ast.FieldList{}}, Body: &ast.BlockStmt{List: []ast.Stmt{&ast.ExprStmt{X: call}}}}
	stmts = append(stmts, &ast.ExprStmt{X: r.call("Go", &ast.BasicLit{Kind: token.STRING, Value: strconv.Quote(name)}, lit)})
	return &ast.BlockStmt{List: stmts}
}

// for k := range ch { body }  =>  for { k, ok := core.Recv2(ch); if !ok { break }; body }
func (r *rewriter) rewriteRangeChan(n *ast.RangeStmt) ast.Stmt {
	r.st.ChanOps++
	switch ast.Unparen(n.X).(type) {
	case *ast.Ident, *ast.SelectorExpr:
	default:
		r.fail(n, "range over a channel expression with possible side effects")
	}
	ok := r.tmp("ok")
	var key ast.Expr = ast.NewIdent("_")
	if n.Key != nil {
		key = n.Key
	}
	var head []ast.Stmt
	if n.Tok == token.ASSIGN {
		head = append(head,
			&ast.DeclStmt{Decl: &ast.GenDecl{Tok: token.VAR, Specs: []ast.Spec{&ast.ValueSpec{Names: []*ast.Ident{ok}, Type: ast.NewIdent("bool")}}}},
			&ast.AssignStmt{Lhs: []ast.Expr{key, ast.NewIdent(ok.Name)}, Tok: token.ASSIGN, Rhs: []ast.Expr{r.call("Recv2", n.X)}})
	} else {
		head = append(head, &ast.AssignStmt{Lhs: []ast.Expr{key, ok}, Tok: token.DEFINE, Rhs: []ast.Expr{r.call("Recv2", n.X)}})
	}
	head = append(head, &ast.IfStmt{Cond: &ast.UnaryExpr{Op: token.NOT, X: ast.NewIdent(ok.Name)}, Body: &ast.BlockStmt{List: []ast.Stmt{&ast.BranchStmt{Tok: token.BREAK}}}})
	body := &ast.BlockStmt{List: append(head, n.Body.List...)}
	return &ast.ForStmt{Body: body}
}

// select { case v, ok := <-a: A; case b <- x: B; default: D }
//
//	=>
//
// { c0 := a; c1, v1 := b, x
//
//	switch i, rv, rok := core.Select(hasDefault, core.RecvCase(c0), core.SendCase(c1, v1)); i {
//	case 0: v, ok := core.SelVal(c0, rv), rok; A
//	case 1: B
//	default: D } }
func (r *rewriter) rewriteSelect(n *ast.SelectStmt, c *astutil.Cursor) ast.Stmt {
	var pre []ast.Stmt
	var cases []ast.Expr
	var clauses []ast.Stmt
	hasDefault := false
	iv, rv, rok := r.tmp("i"), r.tmp("rv"), r.tmp("rok")
	usedRv, usedOk := false, false
	idx := 0
	for _, cl := range n.Body.List {
		cc := cl.(*ast.CommClause)
		if cc.Comm == nil {
			hasDefault = true
			clauses = append(clauses, &ast.CaseClause{Body: cc.Body})
			continue
		}
		var body []ast.Stmt
		switch s := cc.Comm.(type) {
		case *ast.SendStmt:
			ch, v := r.tmp("c"), r.tmp("v")
			pre = append(pre, &ast.AssignStmt{Lhs: []ast.Expr{ch, v}, Tok: token.DEFINE, Rhs: []ast.Expr{s.Chan, s.Value}})
			// keep the channel's element type for the value: SendCase is generic over it
			cases = append(cases, r.call("SendCase", ast.NewIdent(ch.Name), ast.NewIdent(v.Name)))
		case *ast.ExprStmt:
			u, ok := ast.Unparen(s.X).(*ast.UnaryExpr)
			if !ok || u.Op != token.ARROW {
				r.fail(s, "unexpected select comm expression")
				return n
			}
			ch := r.tmp("c")
			pre = append(pre, &ast.AssignStmt{Lhs: []ast.Expr{ch}, Tok: token.DEFINE, Rhs: []ast.Expr{u.X}})
			cases = append(cases, r.call("RecvCase", ast.NewIdent(ch.Name)))
		case *ast.AssignStmt:
			u, ok := ast.Unparen(s.Rhs[0]).(*ast.UnaryExpr)
			if !ok || u.Op != token.ARROW {
				r.fail(s, "unexpected select comm assignment")
				return n
			}
			ch := r.tmp("c")
			pre = append(pre, &ast.AssignStmt{Lhs: []ast.Expr{ch}, Tok: token.DEFINE, Rhs: []ast.Expr{u.X}})
			cases = append(cases, r.call("RecvCase", ast.NewIdent(ch.Name)))
			rhs := []ast.Expr{r.call("SelVal", ast.NewIdent(ch.Name), ast.NewIdent(rv.Name))}
			usedRv = true
			if len(s.Lhs) == 2 {
				rhs = append(rhs, ast.NewIdent(rok.Name))
				usedOk = true
			}
			body = append(body, &ast.AssignStmt{Lhs: s.Lhs, Tok: s.Tok, Rhs: rhs})
			// silence "declared and not used" for := with blank-free names the body ignores
			if s.Tok == token.DEFINE {
				for _, l := range s.Lhs {
					if id, ok := l.(*ast.Ident); ok && id.Name != "_" {
						body = append(body, &ast.AssignStmt{Lhs: []ast.Expr{ast.NewIdent("_")}, Tok: token.ASSIGN, Rhs: []ast.Expr{ast.NewIdent(id.Name)}})
					}
				}
			}
		}
		body = append(body, cc.Body...)
		clauses = append(clauses, &ast.CaseClause{List: []ast.Expr{&ast.BasicLit{Kind: token.INT, Value: strconv.Itoa(idx)}}, Body: body})
		idx++
	}
	hd := "false"
	if hasDefault {
		hd = "true"
	} else {
		// keep the statement "terminating" when every arm returns (a switch needs a default for that)
		clauses = append(clauses, &ast.CaseClause{Body: []ast.Stmt{&ast.ExprStmt{X: &ast.CallExpr{Fun: ast.NewIdent("panic"), Args: []ast.Expr{&ast.BasicLit{Kind: token.STRING, Value: strconv.Quote("zzcore: select returned an impossible index")}}}}}})
	}
	args := append([]ast.Expr{ast.NewIdent(hd)}, cases...)
	lhs := []ast.Expr{iv, ast.NewIdent("_"), ast.NewIdent("_")}
	if usedRv {
		lhs[1] = rv
	}
	if usedOk {
		lhs[2] = rok
	}
	sw := &ast.SwitchStmt{
		Init: &ast.AssignStmt{Lhs: lhs, Tok: token.DEFINE, Rhs: []ast.Expr{r.call("Select", args...)}},
		Tag:  ast.NewIdent(iv.Name),
		Body: &ast.BlockStmt{List: clauses},
	}
	if _, labeled := c.Parent().(*ast.LabeledStmt); labeled {
		if len(pre) > 0 {
			// the label must stay on a breakable statement; hoisting is only
			// safe when the channel expressions are side-effect free
			r.fail(n, "labeled select is not supported")
		}
		return sw
	}
	return &ast.BlockStmt{List: append(pre, sw)}
}

// SortedKeys is a helper for deterministic output.
func SortedKeys(m map[string]string) []string {
	ks := make([]string, 0, len(m))
	for k := range m {
		ks = append(ks, k)
	}
	sort.Strings(ks)
	return ks
}

// instrumentAccesses is filled in by access.go.
