package instr

// access.go: memory-access events for the happens-before race detector.
//
// Before every statement the plain (unsynchronised) reads it performs are
// announced with zzcore.Read(addr, what); after assignments the writes with
// zzcore.Write.  Locations:
//   (a) fields of struct types declared in this package (address &x.f),
//   (b) map contents, by map identity (zzcore.MapPtr(m)),
//   (c) slice elements (address &s[i]),
//   (d) local variables captured by a function literal (address &v),
//   (e) package-level variables of this package (address &v).
// Anything that cannot be announced without evaluating side effects twice, or
// that is only conditionally evaluated (right operands of && and ||), is
// skipped: the detector may miss a race there but never invents one.

import (
	"fmt"
	"go/ast"
	"go/token"
	"go/types"
	"strconv"
)

type access struct {
	ptr   ast.Expr // expression of type unsafe.Pointer
	what  string
	write bool
	key   string
}

func (r *rewriter) instrumentAccesses() {
	r.captured = map[*types.Var]bool{}
	// else-if => else { if }, so that every condition has a place for its events
	ast.Inspect(r.file, func(n ast.Node) bool {
		if s, ok := n.(*ast.IfStmt); ok {
			if e, ok := s.Else.(*ast.IfStmt); ok {
				s.Else = &ast.BlockStmt{List: []ast.Stmt{e}}
			}
		}
		return true
	})
	for _, d := range r.file.Decls {
		fd, ok := d.(*ast.FuncDecl)
		if !ok || fd.Body == nil {
			continue
		}
		r.findCaptured(fd)
	}
	for _, d := range r.file.Decls {
		fd, ok := d.(*ast.FuncDecl)
		if !ok || fd.Body == nil {
			continue
		}
		fd.Body.List = r.instrList(fd.Body.List)
	}
}

// findCaptured marks local variables that are used inside a function literal
// which does not contain their declaration.
func (r *rewriter) findCaptured(fd *ast.FuncDecl) {
	var lits []*ast.FuncLit
	var walk func(n ast.Node)
	walk = func(n ast.Node) {
		ast.Inspect(n, func(m ast.Node) bool {
			switch x := m.(type) {
			case *ast.FuncLit:
				if m == n {
					return true
				}
				lits = append(lits, x)
				walk(x.Body)
				lits = lits[:len(lits)-1]
				return false
			case *ast.Ident:
				if len(lits) == 0 {
					return true
				}
				v, ok := r.info.Uses[x].(*types.Var)
				if !ok || v.IsField() || v.Pkg() != r.pkg || v.Parent() == r.pkg.Scope() {
					return true
				}
				inner := lits[len(lits)-1]
				if v.Pos() < inner.Pos() || v.Pos() > inner.End() {
					r.captured[v] = true
				}
			}
			return true
		})
	}
	walk(fd.Body)
}

func (r *rewriter) posString(n ast.Node) string {
	p := r.fset.Position(n.Pos())
	f := p.Filename
	for i := len(f) - 1; i >= 0; i-- {
		if f[i] == '/' {
			f = f[i+1:]
			break
		}
	}
	return f + ":" + strconv.Itoa(p.Line)
}

// ---- expression cloning (only side-effect free forms)

func (r *rewriter) pure(e ast.Expr) bool {
	switch x := e.(type) {
	case *ast.Ident, *ast.BasicLit:
		return true
	case *ast.ParenExpr:
		return r.pure(x.X)
	case *ast.SelectorExpr:
		return r.pure(x.X)
	case *ast.StarExpr:
		return r.pure(x.X)
	case *ast.IndexExpr:
		return r.pure(x.X) && r.pure(x.Index)
	case *ast.BinaryExpr:
		return r.pure(x.X) && r.pure(x.Y)
	case *ast.UnaryExpr:
		return x.Op != token.ARROW && r.pure(x.X)
	}
	return false
}

func cloneExpr(e ast.Expr) ast.Expr {
	switch x := e.(type) {
	case *ast.Ident:
		return ast.NewIdent(x.Name)
	case *ast.BasicLit:
		return &ast.BasicLit{Kind: x.Kind, Value: x.Value}
	case *ast.ParenExpr:
		return &ast.ParenExpr{X: cloneExpr(x.X)}
	case *ast.SelectorExpr:
		return &ast.SelectorExpr{X: cloneExpr(x.X), Sel: ast.NewIdent(x.Sel.Name)}
	case *ast.StarExpr:
		return &ast.StarExpr{X: cloneExpr(x.X)}
	case *ast.IndexExpr:
		return &ast.IndexExpr{X: cloneExpr(x.X), Index: cloneExpr(x.Index)}
	case *ast.BinaryExpr:
		return &ast.BinaryExpr{X: cloneExpr(x.X), Op: x.Op, Y: cloneExpr(x.Y)}
	case *ast.UnaryExpr:
		return &ast.UnaryExpr{Op: x.Op, X: cloneExpr(x.X)}
	}
	panic(fmt.Sprintf("cloneExpr: %T", e))
}

func exprKey(e ast.Expr) string {
	switch x := e.(type) {
	case *ast.Ident:
		return x.Name
	case *ast.BasicLit:
		return x.Value
	case *ast.ParenExpr:
		return "(" + exprKey(x.X) + ")"
	case *ast.SelectorExpr:
		return exprKey(x.X) + "." + x.Sel.Name
	case *ast.StarExpr:
		return "*" + exprKey(x.X)
	case *ast.IndexExpr:
		return exprKey(x.X) + "[" + exprKey(x.Index) + "]"
	case *ast.BinaryExpr:
		return exprKey(x.X) + x.Op.String() + exprKey(x.Y)
	case *ast.UnaryExpr:
		return x.Op.String() + exprKey(x.X)
	}
	return "?"
}

func (r *rewriter) unsafePtr(addr ast.Expr) ast.Expr {
	r.needUnsafe = true
	return &ast.CallExpr{Fun: &ast.SelectorExpr{X: ast.NewIdent("zzunsafe"), Sel: ast.NewIdent("Pointer")}, Args: []ast.Expr{addr}}
}

// ---- what is a tracked location?

func isSyncType(t types.Type) bool {
	for {
		if p, ok := t.(*types.Pointer); ok {
			t = p.Elem()
			continue
		}
		break
	}
	if n, ok := t.(*types.Named); ok && n.Obj().Pkg() != nil {
		switch n.Obj().Pkg().Path() {
		case "sync", "sync/atomic":
			return true
		}
	}
	if _, ok := t.Underlying().(*types.Chan); ok {
		return true
	}
	return false
}

// rootIsLocalValue: x.f.g where the base identifier is a local non-pointer
// struct (e.g. a value receiver): thread-local, not tracked.
func (r *rewriter) rootIsLocalValue(e ast.Expr) bool {
	for {
		switch x := e.(type) {
		case *ast.ParenExpr:
			e = x.X
			continue
		case *ast.SelectorExpr:
			if sel := r.info.Selections[x]; sel != nil && sel.Indirect() {
				return false // goes through a pointer somewhere
			}
			e = x.X
			continue
		case *ast.Ident:
			v, ok := r.info.Uses[x].(*types.Var)
			if !ok {
				return false
			}
			if _, isPtr := v.Type().Underlying().(*types.Pointer); isPtr {
				return false
			}
			return v.Parent() != r.pkg.Scope() && !r.captured[v]
		}
		return false
	}
}

func (r *rewriter) fieldAccess(sel *ast.SelectorExpr, write bool) *access {
	s := r.info.Selections[sel]
	if s == nil || s.Kind() != types.FieldVal {
		return nil
	}
	f, ok := s.Obj().(*types.Var)
	if !ok || f.Pkg() != r.pkg || isSyncType(f.Type()) {
		return nil
	}
	tv, ok := r.info.Types[sel]
	if !ok || !tv.Addressable() || !r.pure(sel) || r.rootIsLocalValue(sel) {
		return nil
	}
	recv := s.Recv()
	for {
		if p, ok := recv.(*types.Pointer); ok {
			recv = p.Elem()
			continue
		}
		break
	}
	tn := "struct"
	if n, ok := recv.(*types.Named); ok {
		tn = n.Obj().Name()
	}
	return &access{ptr: r.unsafePtr(&ast.UnaryExpr{Op: token.AND, X: cloneExpr(sel)}), what: fmt.Sprintf("%s.%s", tn, f.Name()), write: write, key: "f:" + exprKey(sel)}
}

func (r *rewriter) varAccess(id *ast.Ident, write bool) *access {
	v, ok := r.info.Uses[id].(*types.Var)
	if !ok || isSyncType(v.Type()) || v.IsField() {
		return nil
	}
	if v.Pkg() == r.pkg && v.Parent() == r.pkg.Scope() {
		// (e) package-level variable of this package
		return &access{ptr: r.unsafePtr(&ast.UnaryExpr{Op: token.AND, X: ast.NewIdent(id.Name)}), what: "package variable " + id.Name, write: write, key: "g:" + id.Name}
	}
	if !r.captured[v] {
		return nil
	}
	return &access{ptr: r.unsafePtr(&ast.UnaryExpr{Op: token.AND, X: ast.NewIdent(id.Name)}), what: "captured variable " + id.Name, write: write, key: "v:" + id.Name}
}

func (r *rewriter) mapAccess(m ast.Expr, write bool) *access {
	t := r.typeOf(m)
	if t == nil {
		return nil
	}
	if _, ok := t.Underlying().(*types.Map); !ok || !r.pure(m) {
		return nil
	}
	return &access{ptr: r.call("MapPtr", cloneExpr(m)), what: "contents of map " + exprKey(m), write: write, key: "m:" + exprKey(m)}
}

func (r *rewriter) elemAccess(ix *ast.IndexExpr, write bool) *access {
	t := r.typeOf(ix.X)
	if t == nil {
		return nil
	}
	if _, ok := t.Underlying().(*types.Slice); !ok || !r.pure(ix) {
		return nil
	}
	return &access{ptr: r.unsafePtr(&ast.UnaryExpr{Op: token.AND, X: cloneExpr(ix)}), what: "element " + exprKey(ix), write: write, key: "e:" + exprKey(ix)}
}

type accSet struct {
	list []*access
	seen map[string]bool
}

func (a *accSet) add(x *access) {
	if x == nil {
		return
	}
	k := x.key
	if x.write {
		k = "W" + k
	}
	if a.seen == nil {
		a.seen = map[string]bool{}
	}
	if a.seen[k] {
		return
	}
	a.seen[k] = true
	a.list = append(a.list, x)
}

// reads collects the plain reads performed when e is evaluated.
func (r *rewriter) reads(e ast.Expr, acc *accSet) {
	switch x := e.(type) {
	case nil:
	case *ast.Ident:
		acc.add(r.varAccess(x, false))
	case *ast.ParenExpr:
		r.reads(x.X, acc)
	case *ast.SelectorExpr:
		if r.isPkgName(x.X) {
			return
		}
		r.reads(x.X, acc)
		acc.add(r.fieldAccess(x, false))
	case *ast.StarExpr:
		r.reads(x.X, acc)
	case *ast.IndexExpr:
		r.reads(x.X, acc)
		r.reads(x.Index, acc)
		acc.add(r.mapAccess(x.X, false))
		acc.add(r.elemAccess(x, false))
	case *ast.SliceExpr:
		r.reads(x.X, acc)
		r.reads(x.Low, acc)
		r.reads(x.High, acc)
		r.reads(x.Max, acc)
	case *ast.UnaryExpr:
		if x.Op == token.AND {
			// &x.f takes an address: the base is read, the field itself is not
			switch y := ast.Unparen(x.X).(type) {
			case *ast.SelectorExpr:
				r.reads(y.X, acc)
			case *ast.IndexExpr:
				r.reads(y.X, acc)
				r.reads(y.Index, acc)
			case *ast.CompositeLit:
				r.reads(y, acc)
			}
			return
		}
		r.reads(x.X, acc)
	case *ast.BinaryExpr:
		r.reads(x.X, acc)
		if x.Op != token.LAND && x.Op != token.LOR {
			r.reads(x.Y, acc) // right operands of && / || are evaluated conditionally: skipped
		}
	case *ast.CallExpr:
		if id, ok := x.Fun.(*ast.Ident); ok && len(x.Args) >= 1 {
			switch {
			case r.isBuiltin(id, "len") || r.isBuiltin(id, "cap"):
				r.reads(x.Args[0], acc)
				acc.add(r.mapAccess(x.Args[0], false))
				return
			case r.isBuiltin(id, "delete"):
				for _, a := range x.Args {
					r.reads(a, acc)
				}
				return // the write is announced by the statement handler
			}
		}
		// method value / function expression: the receiver is read unless the method takes its address
		switch f := x.Fun.(type) {
		case *ast.SelectorExpr:
			if !r.isPkgName(f.X) {
				if s := r.info.Selections[f]; s != nil && s.Kind() == types.MethodVal {
					if _, ptrRecv := s.Obj().(*types.Func).Type().(*types.Signature).Recv().Type().(*types.Pointer); ptrRecv {
						// x.m() with pointer receiver: &x is taken (or x is a pointer that is read)
						if _, isPtr := r.typeOf(f.X).Underlying().(*types.Pointer); isPtr {
							r.reads(f.X, acc)
						} else if sel, ok := ast.Unparen(f.X).(*ast.SelectorExpr); ok {
							r.reads(sel.X, acc)
						}
					} else {
						r.reads(f.X, acc)
					}
				} else {
					r.reads(f, acc)
				}
			}
		case *ast.FuncLit:
		default:
			r.reads(x.Fun, acc)
		}
		for _, a := range x.Args {
			r.reads(a, acc)
		}
	case *ast.TypeAssertExpr:
		r.reads(x.X, acc)
	case *ast.CompositeLit:
		for _, el := range x.Elts {
			if kv, ok := el.(*ast.KeyValueExpr); ok {
				if _, isStruct := r.typeOf(x).Underlying().(*types.Struct); !isStruct {
					r.reads(kv.Key, acc)
				}
				r.reads(kv.Value, acc)
			} else {
				r.reads(el, acc)
			}
		}
	case *ast.KeyValueExpr:
		r.reads(x.Value, acc)
	case *ast.FuncLit:
		// body handled separately; creating the closure reads nothing
	}
}

// target: e is assigned to.  Sub-expressions are read, the location is written.
func (r *rewriter) target(e ast.Expr, rd, wr *accSet) {
	switch x := ast.Unparen(e).(type) {
	case *ast.Ident:
		if x.Name != "_" {
			wr.add(r.varAccess(x, true))
		}
	case *ast.SelectorExpr:
		r.reads(x.X, rd)
		wr.add(r.fieldAccess(x, true))
	case *ast.IndexExpr:
		r.reads(x.X, rd)
		r.reads(x.Index, rd)
		wr.add(r.mapAccess(x.X, true))
		wr.add(r.elemAccess(x, true))
	case *ast.StarExpr:
		r.reads(x.X, rd)
	}
}

func (r *rewriter) emit(list []*access) []ast.Stmt {
	var out []ast.Stmt
	for _, a := range list {
		fn := "Read"
		if a.write {
			fn = "Write"
		}
		r.st.Accesses++
		out = append(out, &ast.ExprStmt{X: r.call(fn, a.ptr, &ast.BasicLit{Kind: token.STRING, Value: strconv.Quote(a.what)})})
	}
	return out
}

// stmtAccesses: reads announced before s, writes announced after s.
func (r *rewriter) stmtAccesses(s ast.Stmt, rd, wr *accSet) {
	switch x := s.(type) {
	case *ast.ExprStmt:
		r.reads(x.X, rd)
		if c, ok := x.X.(*ast.CallExpr); ok {
			if id, ok := c.Fun.(*ast.Ident); ok && r.isBuiltin(id, "delete") && len(c.Args) == 2 {
				wr.add(r.mapAccess(c.Args[0], true))
			}
		}
	case *ast.AssignStmt:
		for _, e := range x.Rhs {
			r.reads(e, rd)
		}
		for _, l := range x.Lhs {
			if x.Tok == token.DEFINE {
				if id, ok := l.(*ast.Ident); ok && r.info.Defs[id] != nil {
					continue // a new variable
				}
			}
			if x.Tok != token.ASSIGN && x.Tok != token.DEFINE {
				r.reads(l, rd) // op=
			}
			r.target(l, rd, wr)
		}
	case *ast.IncDecStmt:
		r.reads(x.X, rd)
		r.target(x.X, rd, wr)
	case *ast.SendStmt:
		r.reads(x.Chan, rd)
		r.reads(x.Value, rd)
	case *ast.ReturnStmt:
		for _, e := range x.Results {
			r.reads(e, rd)
		}
	case *ast.GoStmt:
		r.reads(x.Call, rd)
	case *ast.DeferStmt:
		r.reads(x.Call, rd)
	case *ast.DeclStmt:
		if g, ok := x.Decl.(*ast.GenDecl); ok {
			for _, sp := range g.Specs {
				if vs, ok := sp.(*ast.ValueSpec); ok {
					for _, v := range vs.Values {
						r.reads(v, rd)
					}
				}
			}
		}
	case *ast.IfStmt:
		if x.Init != nil {
			r.stmtAccesses(x.Init, rd, rd) // writes of the init statement: announced before as well (no later place)
		}
		r.reads(x.Cond, rd)
	case *ast.ForStmt:
		if x.Init != nil {
			r.stmtAccesses(x.Init, rd, rd)
		}
		r.reads(x.Cond, rd)
	case *ast.RangeStmt:
		r.reads(x.X, rd)
		rd.add(r.mapAccess(x.X, false))
		if x.Tok == token.ASSIGN {
			if x.Key != nil {
				r.target(x.Key, rd, rd)
			}
			if x.Value != nil {
				r.target(x.Value, rd, rd)
			}
		}
	case *ast.SwitchStmt:
		if x.Init != nil {
			r.stmtAccesses(x.Init, rd, rd)
		}
		r.reads(x.Tag, rd)
	case *ast.TypeSwitchStmt:
		if x.Init != nil {
			r.stmtAccesses(x.Init, rd, rd)
		}
		switch a := x.Assign.(type) {
		case *ast.ExprStmt:
			r.reads(a.X, rd)
		case *ast.AssignStmt:
			for _, e := range a.Rhs {
				r.reads(e, rd)
			}
		}
	case *ast.SelectStmt:
		for _, cl := range x.Body.List {
			cc := cl.(*ast.CommClause)
			switch c := cc.Comm.(type) {
			case *ast.SendStmt:
				r.reads(c.Chan, rd)
				r.reads(c.Value, rd)
			case *ast.ExprStmt:
				r.reads(c.X, rd)
			case *ast.AssignStmt:
				for _, e := range c.Rhs {
					r.reads(e, rd)
				}
			}
		}
	case *ast.LabeledStmt:
		r.stmtAccesses(x.Stmt, rd, wr)
	}
}

// instrNested rewrites the statement lists nested inside s (blocks, clauses,
// function literals anywhere in its expressions).
func (r *rewriter) instrNested(s ast.Stmt) {
	switch x := s.(type) {
	case *ast.BlockStmt:
		x.List = r.instrList(x.List)
		return
	case *ast.IfStmt:
		x.Body.List = r.instrList(x.Body.List)
		if x.Else != nil {
			r.instrNested(x.Else)
		}
	case *ast.ForStmt:
		x.Body.List = r.instrList(x.Body.List)
		// condition and post statement are evaluated on every iteration
		var rd, wr accSet
		r.reads(x.Cond, &rd)
		if x.Post != nil {
			r.stmtAccesses(x.Post, &rd, &rd)
		}
		if len(rd.list) > 0 {
			x.Body.List = append(r.emit(rd.list), x.Body.List...)
		}
		_ = wr
	case *ast.RangeStmt:
		x.Body.List = r.instrList(x.Body.List)
	case *ast.SwitchStmt:
		for _, c := range x.Body.List {
			cc := c.(*ast.CaseClause)
			cc.Body = r.instrList(cc.Body)
		}
	case *ast.TypeSwitchStmt:
		for _, c := range x.Body.List {
			cc := c.(*ast.CaseClause)
			cc.Body = r.instrList(cc.Body)
		}
	case *ast.SelectStmt:
		for _, c := range x.Body.List {
			cc := c.(*ast.CommClause)
			cc.Body = r.instrList(cc.Body)
		}
	case *ast.LabeledStmt:
		r.instrNested(x.Stmt)
	}
	// function literals in the statement's own expressions
	ast.Inspect(s, func(n ast.Node) bool {
		switch y := n.(type) {
		case *ast.BlockStmt:
			return n == ast.Node(s) // nested blocks were handled above
		case *ast.FuncLit:
			y.Body.List = r.instrList(y.Body.List)
			return false
		case *ast.CaseClause, *ast.CommClause:
			return false
		}
		return true
	})
}

func (r *rewriter) instrList(list []ast.Stmt) []ast.Stmt {
	var out []ast.Stmt
	for _, s := range list {
		r.instrNested(s)
		var rd, wr accSet
		r.stmtAccesses(s, &rd, &wr)
		out = append(out, r.emit(rd.list)...)
		out = append(out, s)
		out = append(out, r.emit(wr.list)...)
	}
	return out
}
