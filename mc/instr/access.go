package instr

// access.go: memory-access events for the happens-before race detector.
// (filled in below; see instrumentAccesses)

func (r *rewriter) instrumentAccesses() {}
