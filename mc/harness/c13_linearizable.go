package main

// C13 shared store is linearizable and data-race free: 2..3 threads issue
// every program over a small operation alphabet on 2 colliding keys; every
// interleaving of the store's real synchronisation operations is explored and
// every resulting call/return history is decided by porcupine against a plain
// map (cross-checked by brute force on short histories).  The vector-clock
// detector flags unsynchronised conflicting accesses on every schedule.

import (
	"fmt"
	"sort"
	"strings"

	"github.com/anishathalye/porcupine"
	flyt "github.com/mark3labs/flyt"
	"github.com/mark3labs/flyt/zzvrt/core"
)

func init() {
	register(&Property{ID: "C13", Instr: true, Gen: genC13})
}

// store operations of the alphabet
const (
	oSetA1 = iota
	oSetB2
	oSetA2
	oGetA
	oHasB
	oDelA
	oLen
	oKeys
	oGetAll
	oMerge // {a:3,b:3}
	oClear
	oGetIntA
	oGetSliceB
	oBindA
	oMergeB4 // {b:4}
	oGetB
	oMergeBig // {b:3} plus 130 filler keys (key a is NOT in the batch): beyond any size threshold of a batched merge path
	numStoreOps
)

var storeOpNames = [...]string{"Set(a,1)", "Set(b,2)", "Set(a,2)", "Get(a)", "Has(b)", "Delete(a)", "Len", "Keys", "GetAll", "Merge{a:3,b:3}", "Clear", "GetInt(a)", "GetSlice(b)", "Bind(a)", "Merge{b:4}", "Get(b)", "Merge{b:3,+130 keys}"}

func isMutator(o int) bool {
	switch o {
	case oSetA1, oSetB2, oSetA2, oDelA, oMerge, oClear, oMergeB4, oMergeBig:
		return true
	}
	return false
}

// kvState: value of key a and b (-1 = absent), and whether the 130 filler keys of the big merge
// are present (0/1)
type kvState [3]int

// fillerKeys: how many filler keys the "big" merge carries in the current scenario (130, or 9
// in the medium variant: just beyond a small chunk size, and cheap enough to interleave fully)
var fillerKeys = 130

type kvOut struct {
	v    int
	ok   bool
	n    int
	all  kvState
	fail bool
	fill int // number of filler keys a listing contained
}

func kvStep(st kvState, op int, out kvOut) (bool, kvState) {
	switch op {
	case oSetA1:
		st[0] = 1
		return true, st
	case oSetB2:
		st[1] = 2
		return true, st
	case oSetA2:
		st[0] = 2
		return true, st
	case oGetA:
		return out.ok == (st[0] >= 0) && (!out.ok || out.v == st[0]), st
	case oGetB:
		return out.ok == (st[1] >= 0) && (!out.ok || out.v == st[1]), st
	case oHasB:
		return out.ok == (st[1] >= 0), st
	case oDelA:
		st[0] = -1
		return true, st
	case oLen:
		n := fillerKeys * st[2]
		for _, v := range st[:2] {
			if v >= 0 {
				n++
			}
		}
		return out.n == n, st
	case oKeys, oGetAll:
		// Keys: presence only; GetAll: presence and values; the filler keys all or none
		if out.fill != fillerKeys*st[2] {
			return false, st
		}
		for i := range st[:2] {
			if (st[i] >= 0) != (out.all[i] >= 0) {
				return false, st
			}
			if op == oGetAll && st[i] != out.all[i] {
				return false, st
			}
		}
		return true, st
	case oMerge:
		st[0], st[1] = 3, 3
		return true, st
	case oMergeBig:
		st[1] = 3 // the big batch does not contain key a
		st[2] = 1
		return true, st
	case oMergeB4:
		st[1] = 4
		return true, st
	case oClear:
		return true, kvState{-1, -1, 0}
	case oGetIntA:
		want := 0
		if st[0] >= 0 {
			want = st[0]
		}
		return out.v == want, st
	case oGetSliceB:
		return out.ok == false, st // ints are never slices: always nil
	case oBindA:
		if st[0] < 0 {
			return out.fail, st
		}
		return !out.fail && out.v == st[0], st
	}
	return false, st
}

var kvModel = porcupine.Model{
	Init: func() interface{} { return kvState{-1, -1} },
	Step: func(state, input, output interface{}) (bool, interface{}) {
		ok, ns := kvStep(state.(kvState), input.(int), output.(kvOut))
		return ok, ns
	},
	Equal: func(a, b interface{}) bool { return a.(kvState) == b.(kvState) },
	DescribeOperation: func(in, out interface{}) string {
		return fmt.Sprintf("%s -> %+v", storeOpNames[in.(int)], out.(kvOut))
	},
}

// The maps handed to Merge stay the caller's: whatever the other clients do to the store
// afterwards must not show in them (checked once all clients have finished).
var c13Merged []struct{ m, want map[string]any }

func keepMerged(m map[string]any) map[string]any {
	c13Merged = append(c13Merged, struct{ m, want map[string]any }{m, copyMap(m)})
	return m
}

func checkMergedUntouched() {
	for _, e := range c13Merged {
		same := len(e.m) == len(e.want)
		for k, v := range e.want {
			if g, ok := e.m[k]; !ok || g != v {
				same = false
			}
		}
		if !same {
			core.Problem("a map passed to Merge was changed by later store operations of other clients: it now has %d entries (%v ...), the caller put %d", len(e.m), firstKeys(e.m, 3), len(e.want))
		}
	}
}

func firstKeys(m map[string]any, n int) []string {
	var ks []string
	for k := range m {
		ks = append(ks, k)
	}
	sort.Strings(ks)
	if len(ks) > n {
		ks = ks[:n]
	}
	return ks
}

func doStoreOp(s *flyt.SharedStore, op int) kvOut {
	var o kvOut
	val := func(v any, ok bool) {
		o.ok = ok
		if i, is := v.(int); is {
			o.v = i
		} else if ok {
			o.v = -999
		}
	}
	switch op {
	case oSetA1:
		s.Set("a", 1)
	case oSetB2:
		s.Set("b", 2)
	case oSetA2:
		s.Set("a", 2)
	case oGetA:
		val(s.Get("a"))
	case oGetB:
		val(s.Get("b"))
	case oHasB:
		o.ok = s.Has("b")
	case oDelA:
		s.Delete("a")
	case oLen:
		o.n = s.Len()
	case oKeys:
		o.all = kvState{-1, -1}
		for _, k := range s.Keys() {
			switch k {
			case "a":
				o.all[0] = 0
			case "b":
				o.all[1] = 0
			default:
				o.fill++
			}
		}
	case oGetAll:
		o.all = kvState{-1, -1}
		for k, v := range s.GetAll() {
			i, _ := v.(int)
			switch k {
			case "a":
				o.all[0] = i
			case "b":
				o.all[1] = i
			default:
				o.fill++
			}
		}
	case oMerge:
		s.Merge(keepMerged(map[string]any{"a": 3, "b": 3}))
	case oMergeB4:
		s.Merge(keepMerged(map[string]any{"b": 4}))
	case oMergeBig:
		m := map[string]any{"b": 3}
		for i := 0; i < fillerKeys; i++ {
			m[fmt.Sprintf("f%03d", i)] = 0
		}
		s.Merge(keepMerged(m))
	case oClear:
		s.Clear()
	case oGetIntA:
		o.v = s.GetInt("a")
	case oGetSliceB:
		o.ok = s.GetSlice("b") != nil
	case oBindA:
		var d int
		if err := s.Bind("a", &d); err != nil {
			o.fail = true
		} else {
			o.v = d
		}
	}
	return o
}

// bruteLinearizable: try every permutation consistent with real time (<= 5 ops).
func bruteLinearizable(init kvState, h []porcupine.Operation) bool {
	n := len(h)
	used := make([]bool, n)
	var rec func(st kvState, done int) bool
	rec = func(st kvState, done int) bool {
		if done == n {
			return true
		}
		for i := 0; i < n; i++ {
			if used[i] {
				continue
			}
			// i may go next only if no unused op returned before i was called
			okRT := true
			for j := 0; j < n; j++ {
				if !used[j] && j != i && h[j].Return < h[i].Call {
					okRT = false
					break
				}
			}
			if !okRT {
				continue
			}
			if ok, ns := kvStep(st, h[i].Input.(int), h[i].Output.(kvOut)); ok {
				used[i] = true
				if rec(ns, done+1) {
					used[i] = false
					return true
				}
				used[i] = false
			}
		}
		return false
	}
	return rec(init, 0)
}

type linScn struct {
	medium  bool  // the "big" merge carries 9 filler keys instead of 130
	lens    []int // ops per thread
	first   int   // first op of thread 0 (fixed: sharding)
	prefill bool
	core3   bool // restricted alphabet for 3 threads
	big     bool // alphabet around the big merge (no Len/Keys/Clear: the model only tracks keys a and b)
	filter  bool // quick: require >= 1 mutator and >= 1 reader in the program
	bound   int
}

var core3Ops = []int{oSetA1, oMerge, oClear, oDelA, oGetAll, oLen, oKeys, oGetA, oSetB2, oGetB}

func (sc linScn) scenario() Scenario {
	var label string
	alphabet := make([]int, numStoreOps)
	for i := range alphabet {
		alphabet[i] = i
	}
	if sc.core3 {
		alphabet = core3Ops
	}
	if sc.big {
		alphabet = []int{oSetA1, oSetA2, oSetB2, oGetA, oGetB, oDelA, oMergeBig, oMergeB4, oLen, oGetAll}
	} else if !sc.core3 {
		alphabet = alphabet[:oMergeBig] // the big merge has its own scenarios
	}
	body := func() {
		label = "skipped"
		c13Merged = c13Merged[:0]
		fillerKeys = 130
		if sc.medium {
			fillerKeys = 9
		}
		// choose the program
		progs := make([][]int, len(sc.lens))
		muts, reads := 0, 0
		for t, n := range sc.lens {
			for i := 0; i < n; i++ {
				op := sc.first
				if !(t == 0 && i == 0) {
					op = alphabet[core.Choose(len(alphabet))]
				}
				progs[t] = append(progs[t], op)
				if isMutator(op) {
					muts++
				} else {
					reads++
				}
			}
		}
		if sc.filter && (muts == 0 || reads == 0) {
			return
		}
		if muts == 0 {
			return // read-only programs cannot conflict
		}
		store := flyt.NewSharedStore()
		init := kvState{-1, -1}
		if sc.prefill {
			store.Set("a", 9)
			store.Set("b", 9)
			init = kvState{9, 9}
		}
		var clock core.Cell[int]
		var hist []porcupine.Operation
		tick := func() int64 { v := clock.Get() + 1; clock.Set(v); return int64(v) }
		var ths []*core.Thread
		for t := range progs {
			t := t
			ths = append(ths, core.Go(fmt.Sprintf("client%d", t), func() {
				for _, op := range progs[t] {
					call := tick()
					out := doStoreOp(store, op)
					ret := tick()
					hist = append(hist, porcupine.Operation{ClientId: t, Input: op, Call: call, Output: out, Return: ret})
				}
			}))
		}
		for _, th := range ths {
			core.Join(th)
		}
		checkMergedUntouched()
		m := kvModel
		m.Init = func() interface{} { return init }
		lin := porcupine.CheckOperations(m, hist)
		extra["histories_checked"]++
		if len(hist) <= 5 {
			if b := bruteLinearizable(init, hist); b != lin {
				core.Problem("INTERNAL: porcupine says linearizable=%v, brute force says %v", lin, b)
			}
			extra["brute_force_crosschecks"]++
		}
		var names []string
		for t := range progs {
			var p []string
			for _, o := range progs[t] {
				p = append(p, storeOpNames[o])
			}
			names = append(names, strings.Join(p, ";"))
		}
		label = strings.Join(names, " || ")
		if !lin {
			sort.Slice(hist, func(i, j int) bool { return hist[i].Call < hist[j].Call })
			var hs []string
			for _, o := range hist {
				hs = append(hs, fmt.Sprintf("T%d[%d,%d] %s -> %+v", o.ClientId, o.Call, o.Return, storeOpNames[o.Input.(int)], o.Output.(kvOut)))
			}
			core.Problem("history is not linearizable w.r.t. a map (initial %v): %s", init, strings.Join(hs, " | "))
		}
		// final state must equal the model's state after SOME linearization: checked by a final GetAll
		final := doStoreOp(store, oGetAll)
		hist = append(hist, porcupine.Operation{ClientId: 99, Input: oGetAll, Call: tick(), Output: final, Return: tick()})
		if lin && !porcupine.CheckOperations(m, hist) {
			core.Problem("final store contents %v are not explained by any linearization of %s", final.all, label)
		}
	}
	check := func(x *core.Execution) (string, []string) {
		var pr []string
		if x.Deadlock != "" {
			pr = append(pr, "deadlock: "+x.Deadlock)
		}
		if x.Panic != "" {
			pr = append(pr, x.Panic)
		}
		pr = append(pr, x.Races...)
		return label, pr
	}
	name := fmt.Sprintf("linearizable threads=%v first=%s prefill=%v core-alphabet=%v big-merge=%v", sc.lens, storeOpNames[sc.first], sc.prefill, sc.core3, sc.big)
	if sc.medium {
		name += " (9 filler keys)"
	}
	return Scenario{Name: name + boundName(sc.bound), Bound: sc.bound, Body: body, Check: check, NoMerge: false}
}

func genC13(tier string) []Scenario {
	var out []Scenario
	th := tier == "thorough"
	out = append(out, genC13Matrix()...)
	// a merge large enough for any batched path, against concurrent writers of existing keys
	for _, prefill := range []bool{true, false} {
		out = append(out, linScn{lens: []int{1, 1}, first: oMergeBig, prefill: prefill, big: true, bound: unbounded}.scenario())
		out = append(out, linScn{lens: []int{1, 2}, first: oMergeBig, prefill: prefill, big: true, bound: unbounded}.scenario())
		out = append(out, linScn{lens: []int{2, 1}, first: oMergeBig, prefill: prefill, big: true, bound: unbounded}.scenario())
	}
	for _, prefill := range []bool{true, false} {
		out = append(out, linScn{lens: []int{1, 1}, first: oMergeBig, prefill: prefill, big: true, medium: true, bound: unbounded}.scenario())
		out = append(out, linScn{lens: []int{1, 2}, first: oMergeBig, prefill: prefill, big: true, medium: true, bound: unbounded}.scenario())
	}
	for first := 0; first < oMergeBig; first++ {
		for _, prefill := range []bool{false, true} {
			out = append(out, linScn{lens: []int{1, 1}, first: first, prefill: prefill, bound: unbounded}.scenario())
			out = append(out, linScn{lens: []int{1, 2}, first: first, prefill: prefill, bound: unbounded}.scenario())
			out = append(out, linScn{lens: []int{2, 1}, first: first, prefill: prefill, bound: unbounded, filter: !th}.scenario())
			if th || !prefill {
				out = append(out, linScn{lens: []int{2, 2}, first: first, prefill: prefill, bound: unbounded, filter: !th}.scenario())
			}
		}
	}
	for _, first := range core3Ops {
		b := 3
		if th {
			b = unbounded
		}
		out = append(out, linScn{lens: []int{1, 1, 1}, first: first, core3: true, bound: b}.scenario())
		if th {
			out = append(out, linScn{lens: []int{1, 1, 1}, first: first, core3: true, prefill: true, bound: b}.scenario())
			out = append(out, linScn{lens: []int{2, 1, 1}, first: first, core3: true, bound: unbounded}.scenario())
			out = append(out, linScn{lens: []int{1, 2, 1}, first: first, core3: true, bound: unbounded}.scenario())
			out = append(out, linScn{lens: []int{3, 1}, first: first, core3: true, prefill: true, bound: unbounded}.scenario())
			out = append(out, linScn{lens: []int{1, 3}, first: first, core3: true, bound: unbounded}.scenario())
			out = append(out, linScn{lens: []int{2, 2, 1}, first: first, core3: true, bound: 3}.scenario())
		}
	}
	return out
}
