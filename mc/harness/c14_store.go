package main

// C14 shared store behaves as a map and hands out isolated snapshots.
// (a) explicit-state BFS over the COMPLETE graph of abstract states
//     (store contents x contents of a held GetAll snapshot): each transition
//     replays the shortest path on a fresh real store plus one operation and
//     compares EVERY observer with a plain Go map.
// (b) all raw operation sequences to a depth from the empty store (chooser DFS).

import (
	"encoding/json"
	"errors"
	"fmt"
	"math"
	"reflect"
	"sort"
	"strings"
	"time"

	flyt "github.com/mark3labs/flyt"
	"github.com/mark3labs/flyt/zzvrt/core"
)

func init() {
	register(&Property{ID: "C14", Instr: false, Gen: genC14})
}

var (
	sliceA = []int{7, 8}
	sliceB = []string{"y"}
)

var stKeys = []string{"", "a", "ü"}
var stVals = []any{nil, 1, "s"}

type stOp struct {
	kind string // set get has del len keys getall merge clear hold snapset snapdel drop mergesnap keysmut
	k    string
	v    any
	m    map[string]any
	nilM bool
}

func (o stOp) String() string {
	switch o.kind {
	case "set", "snapset":
		return fmt.Sprintf("%s(%q,%v)", o.kind, o.k, o.v)
	case "del", "snapdel", "get", "has":
		return fmt.Sprintf("%s(%q)", o.kind, o.k)
	case "merge":
		if o.nilM {
			return "merge(nil)"
		}
		ks := make([]string, 0)
		for k, v := range o.m {
			ks = append(ks, fmt.Sprintf("%q:%v", k, v))
		}
		sort.Strings(ks)
		return "merge({" + strings.Join(ks, ",") + "})"
	}
	return o.kind
}

// storeSys: the real store + reference map, side by side.
type storeSys struct {
	real  *flyt.SharedStore
	model map[string]any
	snapR map[string]any // held snapshot handed out by the real GetAll (nil: none)
	snapM map[string]any // what that snapshot must contain
	prob  []string
	dead  bool // a store operation panicked
}

func newStoreSys() *storeSys {
	return &storeSys{real: flyt.NewSharedStore(), model: map[string]any{}}
}

func copyMap(m map[string]any) map[string]any {
	c := make(map[string]any, len(m))
	for k, v := range m {
		c[k] = v
	}
	return c
}

func (s *storeSys) fail(format string, a ...any) {
	s.prob = append(s.prob, fmt.Sprintf(format, a...))
}

// apply performs o on both sides; a panic inside the store is a complaint (the plain map would
// not have panicked), after which this instance is no longer used.
func (s *storeSys) apply(o stOp) {
	defer func() {
		if r := recover(); r != nil {
			s.fail("%s panicked: %v (a plain map does not)", o.String(), r)
			s.dead = true
		}
	}()
	if s.dead {
		return
	}
	s.applyRaw(o)
}

func (s *storeSys) applyRaw(o stOp) {
	switch o.kind {
	case "set":
		s.real.Set(o.k, o.v)
		s.model[o.k] = o.v
	case "del":
		s.real.Delete(o.k)
		delete(s.model, o.k)
	case "clear":
		s.real.Clear()
		s.model = map[string]any{}
	case "merge":
		if o.nilM {
			s.real.Merge(nil)
		} else {
			arg := copyMap(o.m)
			s.real.Merge(arg)
			for k, v := range o.m {
				s.model[k] = v
			}
			// the store must not have adopted the caller's map
			arg["__poison__"] = 1
			delete(arg, "a")
		}
	case "mergesnap": // Merge of an alias of a previously handed-out snapshot
		if s.snapR != nil {
			s.real.Merge(s.snapR)
			for k, v := range s.snapM {
				s.model[k] = v
			}
		}
	case "hold":
		s.snapR = s.real.GetAll()
		s.snapM = copyMap(s.model)
	case "drop":
		s.snapR, s.snapM = nil, nil
	case "snapset":
		if s.snapR != nil {
			s.snapR[o.k] = o.v
			s.snapM[o.k] = o.v
		}
	case "snapdel":
		if s.snapR != nil {
			delete(s.snapR, o.k)
			delete(s.snapM, o.k)
		}
	case "keysmut": // overwrite and append to the slice returned by Keys
		ks := s.real.Keys()
		for i := range ks {
			ks[i] = "__overwritten__"
		}
		ks = append(ks, "__appended__")
		_ = ks
	case "get":
		v, ok := s.real.Get(o.k)
		mv, mok := s.model[o.k]
		if ok != mok || !reflect.DeepEqual(v, mv) {
			s.fail("Get(%q) = (%v,%v), map says (%v,%v)", o.k, v, ok, mv, mok)
		}
	case "has", "len", "keys", "getall":
		// pure observers: covered by observe()
	}
}

// observe compares every observer with the reference map and re-checks the held snapshot.
func (s *storeSys) observe(after string) {
	if s.dead {
		return
	}
	defer func() {
		if r := recover(); r != nil {
			s.fail("after %s: an observer panicked: %v", after, r)
			s.dead = true
		}
	}()
	for _, k := range append(append([]string(nil), stKeys...), "__poison__", "__overwritten__", "__appended__") {
		v, ok := s.real.Get(k)
		mv, mok := s.model[k]
		if ok != mok || !reflect.DeepEqual(v, mv) {
			s.fail("after %s: Get(%q) = (%v,%v), map says (%v,%v)", after, k, v, ok, mv, mok)
		}
		if h := s.real.Has(k); h != mok {
			s.fail("after %s: Has(%q) = %v, map says %v", after, k, h, mok)
		}
	}
	// the typed getters and Bind are views of the same map: they must follow every update
	// (including updates made through Merge) at once
	for _, k := range stKeys {
		mv, mok := s.model[k]
		if p, pv := try(func() {
			wantI, _, okI := specNumeric(mv)
			if !mok || !okI {
				wantI = 0
			}
			if g := s.real.GetInt(k); g != wantI {
				s.fail("after %s: GetInt(%q) = %d, map value %v", after, k, g, mv)
			}
			wantS, _ := mv.(string)
			if g := s.real.GetString(k); g != wantS {
				s.fail("after %s: GetString(%q) = %q, map value %v", after, k, g, mv)
			}
			var wantSl []any
			if mok && mv != nil && reflect.TypeOf(mv).Kind() == reflect.Slice {
				wantSl = specToSlice(mv)
			}
			if g := s.real.GetSlice(k); !eqSlices(g, wantSl) {
				s.fail("after %s: GetSlice(%q) = %v, map value %v", after, k, g, mv)
			}
			var got any
			err := s.real.Bind(k, &got)
			if !mok {
				if err == nil {
					s.fail("after %s: Bind(%q) succeeded for a missing key", after, k)
				}
			} else {
				var ref any
				data, _ := json.Marshal(mv)
				rerr := json.Unmarshal(data, &ref)
				if (err == nil) != (rerr == nil) || !reflect.DeepEqual(got, ref) {
					s.fail("after %s: Bind(%q) gave (%v, %v), JSON round trip of the map value gives (%v, %v)", after, k, got, err, ref, rerr)
				}
			}
		}); p {
			s.fail("after %s: typed getter panicked: %v", after, pv)
		}
	}
	if n := s.real.Len(); n != len(s.model) {
		s.fail("after %s: Len() = %d, map has %d", after, n, len(s.model))
	}
	ks := s.real.Keys()
	sort.Strings(ks)
	var mk []string
	for k := range s.model {
		mk = append(mk, k)
	}
	sort.Strings(mk)
	if !reflect.DeepEqual(ks, mk) && !(len(ks) == 0 && len(mk) == 0) {
		s.fail("after %s: Keys() = %q, map keys %q", after, ks, mk)
	}
	all := s.real.GetAll()
	if !reflect.DeepEqual(all, s.model) {
		s.fail("after %s: GetAll() = %v, map %v", after, all, s.model)
	}
	if all == nil {
		s.fail("after %s: GetAll() returned a nil map", after)
	}
	if s.snapR != nil && !reflect.DeepEqual(s.snapR, s.snapM) {
		s.fail("after %s: a snapshot handed out earlier changed: now %v, must be %v", after, s.snapR, s.snapM)
	}
}

func (s *storeSys) key() string {
	enc := func(m map[string]any) string {
		var sb strings.Builder
		for _, k := range stKeys {
			v, ok := m[k]
			switch {
			case !ok:
				sb.WriteByte('-')
			case v == nil:
				sb.WriteByte('n')
			case v == 1:
				sb.WriteByte('1')
			case v == 2:
				sb.WriteByte('2')
			default:
				switch v.(type) {
				case []int:
					sb.WriteByte('i')
				case []string:
					sb.WriteByte('t')
				default:
					sb.WriteByte('s')
				}
			}
		}
		return sb.String()
	}
	k := enc(s.model) + "|"
	if s.snapM == nil {
		return k + "none"
	}
	return k + enc(s.snapM)
}

func storeAlphabet(full bool) []stOp {
	var ops []stOp
	for _, k := range stKeys {
		for _, v := range stVals {
			ops = append(ops, stOp{kind: "set", k: k, v: v})
		}
	}
	for _, k := range stKeys {
		ops = append(ops, stOp{kind: "del", k: k})
	}
	ops = append(ops, stOp{kind: "clear"}, stOp{kind: "merge", nilM: true}, stOp{kind: "merge", m: map[string]any{}})
	for i, k := range stKeys {
		for _, v := range stVals {
			ops = append(ops, stOp{kind: "merge", m: map[string]any{k: v}})
			if full {
				for _, k2 := range stKeys[i+1:] {
					for _, v2 := range stVals {
						ops = append(ops, stOp{kind: "merge", m: map[string]any{k: v, k2: v2}})
					}
				}
			}
		}
	}
	ops = append(ops, stOp{kind: "hold"}, stOp{kind: "drop"}, stOp{kind: "mergesnap"}, stOp{kind: "keysmut"})
	for _, k := range stKeys {
		for _, v := range stVals {
			ops = append(ops, stOp{kind: "snapset", k: k, v: v})
		}
		ops = append(ops, stOp{kind: "snapdel", k: k})
	}
	return ops
}

// bfsStore explores the complete abstract state graph.
func bfsStore(deadline time.Time) *core.Stats {
	st := &core.Stats{ByCost: map[int]int64{}, Outcomes: map[string]int64{}}
	ops := storeAlphabet(true)
	type node struct{ path []stOp }
	seen := map[string]bool{}
	build := func(path []stOp) *storeSys {
		s := newStoreSys()
		for _, o := range path {
			s.apply(o)
		}
		return s
	}
	init := build(nil)
	seen[init.key()] = true
	frontier := []node{{}}
	maxDepth := 0
	for len(frontier) > 0 {
		n := frontier[0]
		frontier = frontier[1:]
		for _, o := range ops {
			s := build(n.path)
			s.prob = nil
			s.apply(o)
			s.observe(o.String())
			st.Executions++
			st.Transitions += int64(len(n.path) + 1)
			if len(s.prob) > 0 && len(st.Violations) < 10 {
				var log []string
				for _, p := range n.path {
					log = append(log, p.String())
				}
				log = append(log, o.String())
				st.Violations = append(st.Violations, core.Violation{Msgs: s.prob, Log: log})
			}
			k := s.key()
			st.Outcomes[k]++
			if !seen[k] {
				seen[k] = true
				np := append(append([]stOp(nil), n.path...), o)
				if len(np) > maxDepth {
					maxDepth = len(np)
				}
				frontier = append(frontier, node{path: np})
			}
		}
		if st.Executions%4096 == 0 && time.Now().After(deadline) {
			st.Capped, st.CapReason = true, "time budget"
			break
		}
	}
	st.States = int64(len(seen))
	st.TreeNodes = int64(len(seen))
	st.MaxDepth = maxDepth
	st.ByCost[0] = st.Executions
	st.SampleLog = []string{fmt.Sprintf("BFS over abstract states: %d states, %d transitions, max shortest-path depth %d, alphabet %d ops", len(seen), st.Executions, maxDepth, len(ops))}
	return st
}

func genC14(tier string) []Scenario {
	var out []Scenario
	out = append(out, Scenario{Name: "store-bfs complete abstract state graph", Direct: bfsStore})
	out = append(out, Scenario{Name: "store overwrite matrix: every ordered pair of a catalogue of values, by Set and by Merge, read back bit for bit", Direct: overwriteMatrix})
	out = append(out, Scenario{Name: "store caller-owned map merged again after the caller changed it (histories over Merge(m), m[k]=v, delete(m,k), Set, Delete, Clear)", Direct: remergeHistories})
	// raw sequences from the empty store (path-dependent state the abstract key could hide):
	// the state reached is compared with the reference after EVERY step.
	depth := 4
	if tier == "thorough" {
		depth = 6
	}
	raw := []stOp{
		{kind: "set", k: "a", v: 1}, {kind: "set", k: "a", v: nil}, {kind: "set", k: "", v: "s"}, {kind: "set", k: "ü", v: 1},
		{kind: "del", k: "a"}, {kind: "del", k: "ü"}, {kind: "clear"},
		{kind: "merge", m: map[string]any{"a": "s", "": nil}}, {kind: "merge", nilM: true}, {kind: "mergesnap"},
		{kind: "hold"}, {kind: "snapset", k: "a", v: "s"}, {kind: "snapdel", k: ""}, {kind: "keysmut"},
		{kind: "set", k: "a", v: sliceA}, {kind: "merge", m: map[string]any{"a": sliceB}}, {kind: "merge", m: map[string]any{"a": 2, "ü": sliceA}},
	}
	for first := range raw {
		first := first
		var last string
		body := func() {
			s := newStoreSys()
			var names []string
			for d := 0; d < depth; d++ {
				i := first
				if d > 0 {
					i = core.Choose(len(raw))
				}
				s.apply(raw[i])
				names = append(names, raw[i].String())
				s.observe(raw[i].String())
			}
			last = s.key()
			for _, p := range s.prob {
				core.Problem("%s: %s", strings.Join(names, " "), p)
			}
		}
		out = append(out, Scenario{Name: fmt.Sprintf("store-raw depth=%d first=%s", depth, raw[first]), Body: body, Check: stdCheck(func() string { return last })})
	}
	// the same sequences observed SPARSELY: once after a chosen step and once at the end.  State
	// that an observer itself leaves behind (a memo filled by Keys / a typed getter) is only
	// stale if nothing looks in between, which observing after every step never lets happen.
	sdepth := 4
	if tier == "thorough" {
		sdepth = 5
	}
	for first := range raw {
		first := first
		var last string
		body := func() {
			s := newStoreSys()
			var names []string
			obsAt := core.Choose(sdepth - 1)
			for d := 0; d < sdepth; d++ {
				i := first
				if d > 0 {
					i = core.Choose(len(raw))
				}
				s.apply(raw[i])
				names = append(names, raw[i].String())
				if d == obsAt || d == sdepth-1 {
					names = append(names, "<observe>")
					s.observe(raw[i].String())
				}
			}
			last = s.key()
			for _, p := range s.prob {
				core.Problem("%s: %s", strings.Join(names, " "), p)
			}
		}
		out = append(out, Scenario{Name: fmt.Sprintf("store-raw-sparsely-observed depth=%d first=%s", sdepth, raw[first]), Body: body, Check: stdCheck(func() string { return last })})
	}
	// sizes around internal thresholds: fill K keys, snapshot, delete them one by one, merge a
	// big map (and an alias of a snapshot) into the EMPTY store, mutate the caller's map afterwards
	ks := []int{1, 2, 7, 8, 9, 31, 32, 33, 63, 64, 65, 66, 100, 129, 130}
	if tier == "thorough" {
		ks = nil
		for k := 1; k <= 300; k++ {
			ks = append(ks, k)
		}
	}
	for _, k := range ks {
		k := k
		out = append(out, Scenario{Name: fmt.Sprintf("store-long K=%d", k), Direct: func(deadline time.Time) *core.Stats {
			st := &core.Stats{ByCost: map[int]int64{}, Outcomes: map[string]int64{}}
			s := newStoreSys()
			stKeysSaved := stKeys
			step := func(o stOp) {
				s.apply(o)
				s.observeLite(o.String())
				st.Executions++
				st.Transitions++
			}
			big := map[string]any{}
			for i := 0; i < k; i++ {
				key := fmt.Sprintf("k%03d", i)
				big[key] = i
				step(stOp{kind: "set", k: key, v: i})
			}
			// a merge LARGER than the store that shares every other key with it (new values win),
			// and one smaller than the store
			over := map[string]any{}
			for i := 0; i < 2*k+1; i++ {
				if i%2 == 0 {
					over[fmt.Sprintf("k%03d", i/2)] = fmt.Sprintf("merged-%d", i)
				} else {
					over[fmt.Sprintf("x%03d", i)] = i
				}
			}
			step(stOp{kind: "merge", m: over})
			step(stOp{kind: "merge", m: map[string]any{"k000": "again", "x001": nil}})
			for i := 0; i < 2*k+1; i++ {
				if i%2 == 1 {
					step(stOp{kind: "del", k: fmt.Sprintf("x%03d", i)})
				}
			}
			step(stOp{kind: "hold"})
			for i := 0; i < k; i++ {
				step(stOp{kind: "del", k: fmt.Sprintf("k%03d", i)})
			}
			step(stOp{kind: "mergesnap"}) // an alias of the snapshot merged into the now empty store
			step(stOp{kind: "snapset", k: "k000", v: "mutated-after-merge"})
			step(stOp{kind: "snapdel", k: "k000"})
			step(stOp{kind: "clear"})
			step(stOp{kind: "merge", m: big})
			for i := 0; i < k; i++ {
				step(stOp{kind: "del", k: fmt.Sprintf("k%03d", i)})
			}
			step(stOp{kind: "set", k: "z", v: 1})
			stKeys = stKeysSaved
			if len(s.prob) > 0 {
				st.Violations = append(st.Violations, core.Violation{Msgs: s.prob[:min(3, len(s.prob))]})
			}
			st.Outcomes[fmt.Sprintf("K=%d", k)]++
			st.TreeNodes = int64(st.Executions)
			st.ByCost[0] = st.Executions
			return st
		}})
	}
	return out
}

// observeLite: Len / Keys / GetAll / Has-of-every-model-key against the map (for big stores).
func (s *storeSys) observeLite(after string) {
	if s.dead {
		return
	}
	defer func() {
		if r := recover(); r != nil {
			s.fail("after %s: an observer panicked: %v", after, r)
			s.dead = true
		}
	}()
	if n := s.real.Len(); n != len(s.model) {
		s.fail("after %s: Len() = %d, map has %d", after, n, len(s.model))
	}
	all := s.real.GetAll()
	if !reflect.DeepEqual(all, s.model) {
		s.fail("after %s: GetAll() has %d entries and differs from the map (%d entries)", after, len(all), len(s.model))
	}
	ks := s.real.Keys()
	if len(ks) != len(s.model) {
		s.fail("after %s: Keys() has %d entries, map has %d", after, len(ks), len(s.model))
	}
	for _, k := range ks {
		if _, ok := s.model[k]; !ok {
			s.fail("after %s: Keys() lists %q which is not in the map", after, k)
		}
	}
	for k, mv := range s.model {
		if v, ok := s.real.Get(k); !ok || !reflect.DeepEqual(v, mv) {
			s.fail("after %s: Get(%q) = (%v,%v), map says %v", after, k, v, ok, mv)
		}
	}
	if s.snapR != nil && !reflect.DeepEqual(s.snapR, s.snapM) {
		s.fail("after %s: a snapshot handed out earlier changed", after)
	}
}

// identical: the very same value — same dynamic type and, for floats, the same bits (0 and -0
// differ, NaN equals itself); maps, pointers, slices, funcs by identity.  "Set overwrites" means the
// store then holds THE value that was set, not one that compares equal to it.
func identical(a, b any) bool {
	if a == nil || b == nil {
		return a == nil && b == nil
	}
	va, vb := reflect.ValueOf(a), reflect.ValueOf(b)
	if va.Type() != vb.Type() {
		return false
	}
	switch va.Kind() {
	case reflect.Float32, reflect.Float64:
		return math.Float64bits(va.Float()) == math.Float64bits(vb.Float())
	case reflect.Map, reflect.Pointer, reflect.Func, reflect.Chan, reflect.UnsafePointer:
		return va.Pointer() == vb.Pointer()
	case reflect.Slice:
		return va.Pointer() == vb.Pointer() && va.Len() == vb.Len()
	}
	return reflect.DeepEqual(a, b)
}

type owPoint struct{ X int }

func overwriteCatalogue() []any {
	one := 1
	negZero := math.Copysign(0, -1)
	return []any{nil, 0, 1, int64(0), int64(1), uint8(0), 0.0, negZero, float32(0), float32(negZero), 1.0, math.NaN(), math.Inf(1), "", "s", "0", false, true,
		(*int)(nil), &one, &owPoint{}, owPoint{}, owPoint{X: 1}, map[string]any(nil), map[string]any{}, map[string]any{"a": 1}, []int(nil), []int{}, []int{0}, []any{nil},
		flyt.Action(""), flyt.Action("s"), time.Duration(0), errors.New("e"), struct{}{}}
}

func overwriteMatrix(deadline time.Time) *core.Stats {
	st := &core.Stats{ByCost: map[int]int64{}, Outcomes: map[string]int64{}}
	cat := overwriteCatalogue()
	complain := func(msg string) {
		if len(st.Violations) < 10 {
			st.Violations = append(st.Violations, core.Violation{Msgs: []string{msg}, Log: []string{msg}})
		}
	}
	for i, v1 := range cat {
		for j, v2 := range cat {
			for route := 0; route < 4; route++ {
				s := flyt.NewSharedStore()
				label := ""
				switch route {
				case 0:
					s.Set("k", v1)
					s.Set("k", v2)
					label = "Set, Set"
				case 1:
					s.Set("k", v1)
					s.Merge(map[string]any{"k": v2})
					label = "Set, Merge"
				case 2:
					s.Merge(map[string]any{"k": v1})
					s.Set("k", v2)
					label = "Merge, Set"
				default:
					s.Set("k", v1)
					s.Delete("k")
					s.Set("k", v2)
					label = "Set, Delete, Set"
				}
				got, ok := s.Get("k")
				if !ok || !identical(got, v2) {
					complain(fmt.Sprintf("%s of %s then %s: Get returns %s (present=%v), a plain map holds the second value", label, describe(v1), describe(v2), describe(got), ok))
				}
				if all := s.GetAll(); len(all) != 1 || !identical(all["k"], v2) {
					complain(fmt.Sprintf("%s of %s then %s: GetAll holds %s", label, describe(v1), describe(v2), describe(all["k"])))
				}
				st.Executions++
				st.Transitions += 4
			}
			st.Outcomes[fmt.Sprintf("%d/%d", i, j)]++
		}
	}
	st.TreeNodes = int64(len(cat) * len(cat))
	st.ByCost[0] = st.Executions
	st.SampleLog = []string{fmt.Sprintf("%d values (nil, ints, 0.0 / -0.0 / NaN, strings, typed nil and live pointers, nil / empty / filled maps and slices, named types, an error, struct{}) x the same x {Set-Set, Set-Merge, Merge-Set, Set-Delete-Set}", len(cat))}
	return st
}

// remergeHistories: the caller keeps ONE map m of its own and interleaves changes to it with
// Merge(m) and with direct store operations: all histories of length <= 5 over
// {Merge(m), m[a]=1, m[a]=2, m[b]=1, delete(m,a), Set(a,9), Delete(a), Clear}.  After every step the
// store equals the plain-map model (Merge copies what m holds AT THAT MOMENT; later changes to m do
// not reach the store, store writes do not reach m).
func remergeHistories(deadline time.Time) *core.Stats {
	st := &core.Stats{ByCost: map[int]int64{}, Outcomes: map[string]int64{}}
	const nops, depth = 8, 5
	names := []string{"Merge(m)", "m[a]=1", "m[a]=2", "m[b]=1", "delete(m,a)", "Set(a,9)", "Delete(a)", "Clear"}
	var rec func(hist []int)
	run := func(hist []int) {
		s := flyt.NewSharedStore()
		model := map[string]any{}
		m := map[string]any{}
		mModel := map[string]any{}
		var trace []string
		for _, op := range hist {
			trace = append(trace, names[op])
			switch op {
			case 0:
				s.Merge(m)
				for k, v := range mModel {
					model[k] = v
				}
			case 1:
				m["a"], mModel["a"] = 1, 1
			case 2:
				m["a"], mModel["a"] = 2, 2
			case 3:
				m["b"], mModel["b"] = 1, 1
			case 4:
				delete(m, "a")
				delete(mModel, "a")
			case 5:
				s.Set("a", 9)
				model["a"] = 9
			case 6:
				s.Delete("a")
				delete(model, "a")
			case 7:
				s.Clear()
				model = map[string]any{}
			}
			if all := s.GetAll(); !reflect.DeepEqual(all, model) && !(len(all) == 0 && len(model) == 0) {
				if len(st.Violations) < 10 {
					msg := fmt.Sprintf("after %s the store holds %v, a plain map holds %v", strings.Join(trace, "; "), all, model)
					st.Violations = append(st.Violations, core.Violation{Msgs: []string{msg}, Log: trace})
				}
				break
			}
			if !reflect.DeepEqual(m, mModel) {
				if len(st.Violations) < 10 {
					msg := fmt.Sprintf("after %s the CALLER's map is %v, it put %v there (the store wrote into a map handed to Merge)", strings.Join(trace, "; "), m, mModel)
					st.Violations = append(st.Violations, core.Violation{Msgs: []string{msg}, Log: trace})
				}
				break
			}
		}
		st.Executions++
		st.Transitions += int64(len(hist))
		st.Outcomes[fmt.Sprint(model)]++
	}
	rec = func(hist []int) {
		if len(hist) > 0 {
			run(hist)
			st.TreeNodes++
		}
		if len(hist) == depth {
			return
		}
		for op := 0; op < nops; op++ {
			rec(append(hist, op))
		}
	}
	rec(nil)
	st.ByCost[0] = st.Executions
	st.SampleLog = []string{"m[a]=1; Merge(m); m[a]=2; Merge(m): the store holds a=2"}
	return st
}
