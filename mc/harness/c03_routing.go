package main

// C03 flow routing follows the transition table exactly: exhaustive
// enumeration of transition tables, of Connect histories (overwrites, nil
// targets, chaining), of per-visit action scripts, and of repeated runs of
// the same flow object; the executed path is compared online with the
// reference path walker (ref.go).

import (
	"fmt"
	"reflect"
	"strings"

	flyt "github.com/mark3labs/flyt"
	"github.com/mark3labs/flyt/zzvrt/core"
)

func init() {
	register(&Property{ID: "C03", Instr: false, Gen: genC03})
}

// routingMenu: prep/exec fixed; post picks the action.  After `horizon`
// visits every node answers an action that is never connected.
func routingMenu(actions []flyt.Action, horizons ...int) func(h *H, c call) []answer {
	return func(h *H, c call) []answer {
		horizon := horizons[len(horizons)-1]
		if h.runNo < len(horizons) {
			horizon = horizons[h.runNo]
		}
		switch c.ph {
		case pPost:
			total := 0
			for _, v := range h.visits {
				total += v
			}
			if total >= horizon {
				return []answer{{action: "zz"}}
			}
			m := make([]answer, 0, len(actions)+1)
			for _, a := range actions {
				m = append(m, answer{action: a})
			}
			return append(m, answer{action: "zz"})
		default:
			return []answer{{val: nil}}
		}
	}
}

// runFlowChecked runs the (already built) root flow once and checks the
// outcome, the store log and that Flow.Run agrees.
func (h *H) runFlowOnce(f *flyt.Flow, label string) {
	h.closeRef()
	h.answers, h.calls = nil, nil
	h.visits = map[*spec]int{}
	defer func() { h.runNo++; h.hist = append(h.hist, h.traceString()); h.root.flow.foldEdits() }()
	h.store = flyt.NewSharedStore()
	err := f.Run(h.ctx, h.store)
	core.Logf("%s: Flow.Run returned %v", label, err)
	if err != nil {
		core.Problem("%s: Flow.Run returned %v for a flow whose nodes all succeed", label, err)
	}
	s, out, done := simulate(h.root, h.store, h.answers)
	if !done {
		core.Problem("%s: Flow.Run returned but the reference path continues with %s (path so far: %s)", label, s.next, h.traceString())
	} else if out.err != nil {
		core.Problem("%s: reference ended with error %v", label, out.err)
	}
	// store contents written by the nodes: the visit log
	var want []string
	for _, c := range h.calls {
		if c.ph == pExec {
			want = append(want, c.node.id)
		}
	}
	got, _ := h.store.Get("log")
	gl, _ := got.([]string)
	if !reflect.DeepEqual(gl, want) && !(len(gl) == 0 && len(want) == 0) {
		core.Problem("%s: store log %v differs from the executed path %v", label, gl, want)
	}
}

// logging node kind: exec appends the node id to store["log"] (through the
// store handed to prep).
type logNode struct {
	*flyt.BaseNode
	h *H
	s *spec
}

type logPrep struct {
	st *flyt.SharedStore
	v  any
}

func (n *logNode) Prep(ctx ctxT, st *flyt.SharedStore) (any, error) {
	a := n.h.on(call{node: n.s, ph: pPrep, store: st, ctx: ctx})
	return logPrep{st: st, v: a.val}, a.err
}
func (n *logNode) Exec(ctx ctxT, p any) (any, error) {
	lp, _ := p.(logPrep)
	a := n.h.on(call{node: n.s, ph: pExec, attempt: n.h.attemptOf(n.s), prepVal: lp.v, ctx: ctx})
	if lp.st != nil {
		l, _ := lp.st.Get("log")
		ll, _ := l.([]string)
		lp.st.Set("log", append(append([]string(nil), ll...), n.s.id))
	}
	return a.val, a.err
}
func (n *logNode) Post(ctx ctxT, st *flyt.SharedStore, p, e any) (flyt.Action, error) {
	lp, _ := p.(logPrep)
	a := n.h.on(call{node: n.s, ph: pPost, store: st, prepVal: lp.v, execVal: e, ctx: ctx})
	return a.action, a.err
}

const kLog = 100 // spec.kind for logNode

// The same logging node behind the other Node implementations a flow's table may be keyed by:
// a *BatchNodeBuilder (one item per visit), the bare *BatchNode inside such a builder, and a
// *NodeBuilder.  Only used with menus whose prep/exec always succeed.
const (
	kLogBatch     = 101
	kLogBatchBare = 102
	kLogBuilder   = 103
)

var logKindNames = map[int]string{kLog: "struct", kLogBatch: "batchBuilder", kLogBatchBare: "bareBatchNode", kLogBuilder: "nodeBuilder"}

func appendLog(st *flyt.SharedStore, id string) {
	if st == nil {
		return
	}
	l, _ := st.Get("log")
	ll, _ := l.([]string)
	st.Set("log", append(append([]string(nil), ll...), id))
}

func (h *H) buildLogVariant(s *spec) flyt.Node {
	var cur *flyt.SharedStore
	if s.kind == kLogBuilder {
		return flyt.NewNode().
			WithPrepFuncAny(func(ctx ctxT, st *flyt.SharedStore) (any, error) {
				a := h.on(call{node: s, ph: pPrep, store: st, ctx: ctx})
				cur = st
				return a.val, a.err
			}).
			WithExecFuncAny(func(ctx ctxT, p any) (any, error) {
				a := h.on(call{node: s, ph: pExec, attempt: h.attemptOf(s), prepVal: p, ctx: ctx})
				appendLog(cur, s.id)
				return a.val, a.err
			}).
			WithPostFuncAny(func(ctx ctxT, st *flyt.SharedStore, p, e any) (flyt.Action, error) {
				a := h.on(call{node: s, ph: pPost, store: st, prepVal: p, execVal: e, ctx: ctx})
				return a.action, a.err
			})
	}
	b := flyt.NewBatchNode().
		WithPrepFunc(func(ctx ctxT, st *flyt.SharedStore) ([]flyt.Result, error) {
			a := h.on(call{node: s, ph: pPrep, store: st, ctx: ctx})
			cur = st
			if a.err != nil {
				return nil, a.err
			}
			return []flyt.Result{flyt.NewResult(a.val)}, nil
		}).
		WithExecFunc(func(ctx ctxT, it flyt.Result) (flyt.Result, error) {
			a := h.on(call{node: s, ph: pExec, attempt: h.attemptOf(s), prepVal: it.Value(), ctx: ctx})
			appendLog(cur, s.id)
			if a.err != nil {
				return flyt.Result{}, a.err
			}
			return flyt.NewResult(a.val), nil
		}).
		WithPostFunc(func(ctx ctxT, st *flyt.SharedStore, items, results []flyt.Result) (flyt.Action, error) {
			var p, e any
			if len(items) == 1 && len(results) == 1 {
				p, e = items[0].Value(), results[0].Value()
			} else {
				core.Problem("%s: batch post received %d items / %d results, prep produced 1 item", s.id, len(items), len(results))
			}
			a := h.on(call{node: s, ph: pPost, store: st, prepVal: p, execVal: e, ctx: ctx})
			return a.action, a.err
		})
	if s.kind == kLogBatchBare {
		return b.BatchNode
	}
	return b
}

func genC03(tier string) []Scenario {
	var out []Scenario
	th := tier == "thorough"
	// ---------------- A1: all tables for 3 nodes x 2 actions x {unconnected, nil, n0, n1, n2}
	acts := []flyt.Action{"a", "ab"}
	horizon, horizon2 := 4, 2 // later runs of the same flow object use a shorter horizon
	runs := 2
	if th {
		horizon, horizon2 = 6, 3
		runs = 3
	}
	for e0 := 0; e0 < 5; e0++ {
		for e1 := 0; e1 < 5; e1++ {
			e0, e1 := e0, e1
			var h *H
			body := func() {
				ns := []*spec{{id: "n0", kind: kLog, n: 1}, {id: "n1", kind: kLog, n: 1}, {id: "n2", kind: kLog, n: 1}}
				root := &spec{id: "flow", flow: &flowSpec{start: ns[0], edges: map[*spec]map[flyt.Action]*spec{}}}
				entry := func(i int) int {
					switch i {
					case 0:
						return e0
					case 1:
						return e1
					}
					return core.Choose(5)
				}
				h = newH(root)
				h.menu = routingMenu([]flyt.Action{"a", "ab", ""}, horizon, horizon2, 1)
				k := 0
				for _, from := range ns {
					for _, a := range acts {
						switch e := entry(k); e {
						case 0: // unconnected
						case 1:
							setEdge(root, from, a, nil)
						default:
							setEdge(root, from, a, ns[e-2])
						}
						k++
					}
				}
				f := h.build(root).(*flyt.Flow)
				for r := 0; r < runs; r++ {
					h.runFlowOnce(f, fmt.Sprintf("run %d", r+1))
				}
			}
			out = append(out, Scenario{Name: fmt.Sprintf("tables 3x2 entries[0]=%d entries[1]=%d horizon=%d runs=%d", e0, e1, horizon, runs), Body: body, Check: stdCheck(func() string {
				if h == nil {
					return "?"
				}
				return strings.Join(h.hist, " | ")
			})})
		}
	}
	// ---------------- A1b: the default action connectable too (2 nodes x 3 actions)
	acts3 := []flyt.Action{"a", "ab", flyt.DefaultAction}
	for e01 := 0; e01 < 16; e01++ {
		e0, e1 := e01/4, e01%4
		var h *H
		body := func() {
			ns := []*spec{{id: "n0", kind: kLog, n: 1}, {id: "n1", kind: kLog, n: 1}}
			root := &spec{id: "flow", flow: &flowSpec{start: ns[0], edges: map[*spec]map[flyt.Action]*spec{}}}
			h = newH(root)
			h.menu = routingMenu([]flyt.Action{"a", "ab", "", flyt.DefaultAction}, horizon-1+boolInt(th), horizon2)
			k := 0
			for _, from := range ns {
				for _, a := range acts3 {
					e := e0
					if k == 1 {
						e = e1
					}
					if k > 1 {
						e = core.Choose(4)
					}
					switch e {
					case 0:
					case 1:
						setEdge(root, from, a, nil)
					default:
						setEdge(root, from, a, ns[e-2])
					}
					k++
				}
			}
			f := h.build(root).(*flyt.Flow)
			for r := 0; r < 2; r++ {
				h.runFlowOnce(f, fmt.Sprintf("run %d", r+1))
			}
		}
		out = append(out, Scenario{Name: fmt.Sprintf("tables 2x3(default connectable) entries[0]=%d entries[1]=%d horizon=%d", e0, e1, horizon), Body: body, Check: stdCheck(func() string {
			if h == nil {
				return "?"
			}
			return strings.Join(h.hist, " | ")
		})})
	}
	// ---------------- A1c: what the table is keyed by: every pair of Node implementations
	// (struct node, *BatchNodeBuilder, the bare *BatchNode, *NodeBuilder) x all tables for
	// 2 nodes x {"a", default} x {unconnected, nil, n0, n1}
	logKinds := []int{kLog, kLogBatch, kLogBatchBare, kLogBuilder}
	for _, k0 := range logKinds {
		for _, k1 := range logKinds {
			k0, k1 := k0, k1
			var h *H
			body := func() {
				ns := []*spec{{id: "n0", kind: k0, n: 1}, {id: "n1", kind: k1, n: 1}}
				root := &spec{id: "flow", flow: &flowSpec{start: ns[0], edges: map[*spec]map[flyt.Action]*spec{}}}
				h = newH(root)
				h.menu = routingMenu([]flyt.Action{"a", flyt.DefaultAction}, 3, 2)
				for _, from := range ns {
					for _, a := range []flyt.Action{"a", flyt.DefaultAction} {
						switch e := core.Choose(4); e {
						case 0:
						case 1:
							setEdge(root, from, a, nil)
						default:
							setEdge(root, from, a, ns[e-2])
						}
					}
				}
				f := h.build(root).(*flyt.Flow)
				for r := 0; r < 2; r++ {
					h.runFlowOnce(f, fmt.Sprintf("run %d", r+1))
				}
			}
			out = append(out, Scenario{Name: fmt.Sprintf("tables 2x2 node implementations n0=%s n1=%s", logKindNames[k0], logKindNames[k1]), Body: body, Check: stdCheck(func() string {
				if h == nil {
					return "?"
				}
				return strings.Join(h.hist, " | ")
			})})
		}
	}
	// ---------------- A1d: sizes beyond the small ones — a chain of 10 nodes wired front to back
	// and back to front, and one node with a default edge plus 9 named ones (10 transitions)
	for _, form := range []string{"chain-10 wired front to back", "chain-10 wired back to front", "fan-out default+9 named"} {
		form := form
		var h *H
		body := func() {
			var ns []*spec
			for i := 0; i < 11; i++ {
				ns = append(ns, &spec{id: fmt.Sprintf("n%02d", i), kind: kLog, n: 1})
			}
			root := &spec{id: "flow", flow: &flowSpec{start: ns[0], edges: map[*spec]map[flyt.Action]*spec{}}}
			h = newH(root)
			var acts []flyt.Action
			switch form {
			case "fan-out default+9 named":
				acts = append(acts, flyt.DefaultAction, "")
				setEdge(root, ns[0], flyt.DefaultAction, ns[10])
				for i := 1; i <= 9; i++ {
					a := flyt.Action(fmt.Sprintf("n%d", i)) // sorts after "default": the default edge is connected first
					acts = append(acts, a)
					setEdge(root, ns[0], a, ns[i])
				}
			default:
				acts = []flyt.Action{"go"}
				for i := 0; i < 9; i++ {
					setEdge(root, ns[i], "go", ns[i+1])
				}
			}
			h.menu = routingMenu(acts, 12, 12)
			var f *flyt.Flow
			if form == "chain-10 wired back to front" {
				// built by hand: the Connect calls run from the last edge to the first
				f = flyt.NewFlow(h.build(ns[0]))
				for i := 8; i >= 0; i-- {
					f.Connect(h.build(ns[i]), "go", h.build(ns[i+1]))
				}
				h.nodes[root] = f
			} else {
				f = h.build(root).(*flyt.Flow)
			}
			for r := 0; r < 2; r++ {
				h.runFlowOnce(f, fmt.Sprintf("run %d", r+1))
			}
		}
		out = append(out, Scenario{Name: "tables sizes " + form, Body: body, Check: stdCheck(func() string {
			if h == nil {
				return "?"
			}
			return strings.Join(h.hist, " | ")
		})})
	}
	// ---------------- A2: Connect histories (overwrites, nil, chaining form)
	maxLen, maxMore := 2, 1
	if th {
		maxLen, maxMore = 3, 2
	}
	for fl := 0; fl < 12*maxLen; fl++ {
		first, length := fl%12, 1+fl/12
		var h *H
		body := func() {
			ns := []*spec{{id: "n0", kind: kLog, n: 1}, {id: "n1", kind: kLog, n: 1}}
			root := &spec{id: "flow", flow: &flowSpec{start: ns[0], edges: map[*spec]map[flyt.Action]*spec{}}}
			h = newH(root)
			h.menu = routingMenu([]flyt.Action{"a", "ab"}, 4, 2)
			real := []flyt.Node{h.build(ns[0]), h.build(ns[1])}
			f := flyt.NewFlow(real[0])
			h.nodes[root] = f
			// a node may re-wire the flow from inside its post callback (a "planner" node): the new
			// connection counts from that moment on, also for the rest of the SAME run
			midRun := 0
			h.onCall = func(hh *H, c call) {
				if c.ph != pPost || midRun >= 1 || hh.runNo > 0 || core.Choose(2) == 0 {
					return
				}
				midRun++
				op := core.Choose(12)
				from, a, to := op/6, acts[(op/3)%2], op%3
				var toNode flyt.Node
				var toSpec *spec
				if to > 0 {
					toNode, toSpec = real[to-1], ns[to-1]
				}
				core.Logf("Connect(%s,%q,%v) from inside %s", ns[from].id, a, to, c)
				f.Connect(real[from], a, toNode)
				root.flow.edits = append(root.flow.edits, edgeEdit{at: len(hh.answers) + 1, from: ns[from], action: a, to: toSpec})
			}
			chain := f
			for i := 0; i < length; i++ {
				op := first
				if i > 0 {
					op = core.Choose(12)
				}
				from, a, to := op/6, acts[(op/3)%2], op%3
				var toNode flyt.Node
				var toSpec *spec
				if to > 0 {
					toNode, toSpec = real[to-1], ns[to-1]
				}
				if i%2 == 0 {
					chain = f.Connect(real[from], a, toNode)
				} else {
					chain = chain.Connect(real[from], a, toNode) // chaining form
				}
				if chain != f {
					core.Problem("Connect did not return the flow itself")
				}
				setEdge(root, ns[from], a, toSpec) // reference: last write wins
			}
			h.runFlowOnce(f, "run 1")
			// re-connections AFTER a run must take effect for the next run (overwrites too)
			more := core.Choose(maxMore + 1)
			for i := 0; i < more; i++ {
				op := core.Choose(12)
				from, a, to := op/6, acts[(op/3)%2], op%3
				var toNode flyt.Node
				var toSpec *spec
				if to > 0 {
					toNode, toSpec = real[to-1], ns[to-1]
				}
				f.Connect(real[from], a, toNode)
				setEdge(root, ns[from], a, toSpec)
			}
			h.runFlowOnce(f, "run 2")
		}
		out = append(out, Scenario{Name: fmt.Sprintf("connect-histories first-op=%d length=%d", first, length), Body: body, Check: stdCheck(func() string {
			if h == nil {
				return "?"
			}
			return strings.Join(h.hist, " | ")
		})})
	}
	// ---------------- A2b: longer wiring histories — connect, connect, RUN, connect, connect, RUN,
	// connect, RUN over {skip, Connect(n0|n1, "a", nil|n0|n1|n2)} with every node answering "a":
	// all 9^5 histories, three runs of the same flow object each
	{
		var h *H
		body := func() {
			ns := []*spec{{id: "n0", kind: kLog, n: 1}, {id: "n1", kind: kLog, n: 1}, {id: "n2", kind: kLog, n: 1}}
			root := &spec{id: "flow", flow: &flowSpec{start: ns[0], edges: map[*spec]map[flyt.Action]*spec{}}}
			h = newH(root)
			h.menu = func(hh *H, c call) []answer {
				if c.ph != pPost {
					return []answer{{val: nil}}
				}
				total := 0
				for _, v := range hh.visits {
					total += v
				}
				if total >= 4 {
					return []answer{{action: "zz"}}
				}
				return []answer{{action: "a"}}
			}
			real := []flyt.Node{h.build(ns[0]), h.build(ns[1]), h.build(ns[2])}
			f := flyt.NewFlow(real[0])
			h.nodes[root] = f
			wire := func() {
				op := core.Choose(9)
				if op == 8 {
					return // skip
				}
				from, to := op/4, op%4
				var toNode flyt.Node
				var toSpec *spec
				if to > 0 {
					toNode, toSpec = real[to-1], ns[to-1]
				}
				core.Logf("Connect(%s,\"a\",%d)", ns[from].id, to-1)
				f.Connect(real[from], "a", toNode)
				setEdge(root, ns[from], "a", toSpec)
			}
			wire()
			wire()
			h.runFlowOnce(f, "run 1")
			wire()
			wire()
			h.runFlowOnce(f, "run 2")
			wire()
			h.runFlowOnce(f, "run 3")
		}
		out = append(out, Scenario{Name: "connect-histories three runs, five wiring steps (9^5 histories)", Body: body, Check: stdCheck(func() string {
			if h == nil {
				return "?"
			}
			return strings.Join(h.hist, " | ")
		})})
	}
	out = append(out, sharedNodeScenario())
	for _, budget := range []int{1, 2} {
		for _, asNode := range []bool{false, true} {
			out = append(out, embedFlowScenario(budget, asNode))
		}
	}
	// ---------------- A4: cycles through a flow that contains itself, dead edges on the empty
	// action, flows with retries configured on the flow: two runs of the same flow object, the
	// first of which may be ended by a callback error (the second must start at the start node)
	for i, d := range enumShapes(2, false) {
		if !(d.uses(shSelfRec) || d.uses(shEmptyEdge) || d.uses(shFlowRetry) || d.base == 4) {
			continue
		}
		if d.slot >= 0 && d.inner.base > 1 && d.base < numCoreShapes {
			continue // nests: an extended outer shape with anything inside, or a core outer shape around chain1/chain2... kept small
		}
		if d.slot >= 0 && d.inner.slot >= 0 {
			continue
		}
		if d.uses(shSelfRec) && !th && (d.uses(shDefaultEdge) || (d.slot >= 0 && d.inner.base >= 2 && d.inner.base < numCoreShapes)) {
			continue // the widest menus inside the deepest recursion: thorough tier only
		}
		d := d
		mk := func(root *spec) (func(h *H, c call) []answer, func(h *H)) {
			inj := injectMenu(collectActions(root), 2, false)
			return func(h *H, c call) []answer {
				m := inj(h, c)
				// later runs: routing only (and a plain failure is all the first run needs here)
				var ok []answer
				for _, a := range m {
					if a.err == nil || (h.runNo == 0 && a.err != errCancelThenFail) {
						ok = append(ok, a)
					}
				}
				return ok
			}, nil
		}
		out = append(out, shapeScenarioRuns(fmt.Sprintf("routing-extended runs=2 shape#%d=%s", i, d), d, []int{kLog, kBase, kFuncA}, mk, i%2 == 0, 2))
	}
	return out
}

// sharedNodeScenario: TWO flow objects G and F over the same node objects x, y, z (both start at
// x): histories of five steps over {G.Connect(x,"a",nil|y|z), F.Connect(x,"a",nil|y|z), run G, run F}
// and a final run of each.  A flow follows ITS OWN connections, whatever another flow that shares
// the node has been told, before or after.
func sharedNodeScenario() Scenario {
	var h *H
	body := func() {
		ns := []*spec{{id: "x", kind: kLog, n: 1}, {id: "y", kind: kLog, n: 1}, {id: "z", kind: kLog, n: 1}}
		roots := []*spec{
			{id: "G", flow: &flowSpec{start: ns[0], edges: map[*spec]map[flyt.Action]*spec{}}},
			{id: "F", flow: &flowSpec{start: ns[0], edges: map[*spec]map[flyt.Action]*spec{}}},
		}
		h = newH(roots[0])
		h.menu = func(hh *H, c call) []answer {
			if c.ph != pPost {
				return []answer{{val: nil}}
			}
			return []answer{{action: "a"}}
		}
		real := []flyt.Node{h.build(ns[0]), h.build(ns[1]), h.build(ns[2])}
		flows := []*flyt.Flow{flyt.NewFlow(real[0]), flyt.NewFlow(real[0])}
		h.nodes[roots[0]], h.nodes[roots[1]] = flows[0], flows[1]
		run := func(w int) {
			h.root = roots[w]
			h.runFlowOnce(flows[w], "run of "+roots[w].id)
		}
		for step := 0; step < 5; step++ {
			op := core.Choose(8)
			if op >= 6 {
				run(op - 6)
				continue
			}
			w, to := op/3, op%3
			var toNode flyt.Node
			var toSpec *spec
			if to > 0 {
				toNode, toSpec = real[to], ns[to]
			}
			core.Logf("%s.Connect(x,\"a\",%v)", roots[w].id, toSpec)
			flows[w].Connect(real[0], "a", toNode)
			setEdge(roots[w], ns[0], "a", toSpec)
		}
		run(0)
		run(1)
	}
	return Scenario{Name: "two flows sharing their node objects: connect / run histories of five steps", Body: body, Check: stdCheck(func() string {
		if h == nil {
			return "?"
		}
		return strings.Join(h.hist, " | ")
	})}
}

// embedFlowScenario: a sub-flow wrapped in a user type that embeds *flyt.Flow and overrides Post
// (to give the sub-flow one fixed exit action) is a node like any other: the parent routes on the
// action the WRAPPER finished with.  The parent has edges for that action and for every action the
// inner nodes can end with, to different nodes; budget 1 and 2 on the wrapper.
func embedFlowScenario(budget int, asNode bool) Scenario {
	var h *H
	body := func() {
		a0, b, c, d := &spec{id: "a", kind: kLog, n: 1}, &spec{id: "b", kind: kLog, n: 1}, &spec{id: "c", kind: kLog, n: 1}, &spec{id: "d", kind: kLog, n: 1}
		m0, m1 := &spec{id: "m0", kind: kLog, n: 1}, &spec{id: "m1", kind: kLog, n: 1}
		inner := &spec{id: "wrapped", n: budget, exitAs: "w", flow: &flowSpec{start: m0, edges: map[*spec]map[flyt.Action]*spec{m0: {"a": m1}}}}
		root := &spec{id: "flow", flow: &flowSpec{start: a0, edges: map[*spec]map[flyt.Action]*spec{
			a0:    {"a": inner, "b": inner},
			inner: {"w": b, "a": c, "b": c, flyt.DefaultAction: d},
		}}}
		h = newH(root)
		h.menu = func(hh *H, c call) []answer {
			if c.ph != pPost {
				return []answer{{val: nil}}
			}
			return []answer{{action: "a"}, {action: "b"}, {action: ""}}
		}
		node := h.build(root)
		if asNode {
			a, err := flyt.Run(h.ctx, node, h.store)
			h.finish(a, err)
		} else {
			h.finishErrOnly(node.(*flyt.Flow).Run(h.ctx, h.store))
		}
	}
	return Scenario{Name: fmt.Sprintf("routing through a user type that embeds *Flow and overrides Post, budget=%d asNode=%v", budget, asNode), Body: body, Check: stdCheck(func() string {
		if h == nil {
			return "?"
		}
		return h.traceString()
	})}
}

func setEdge(root *spec, from *spec, a flyt.Action, to *spec) {
	if root.flow.edges[from] == nil {
		root.flow.edges[from] = map[flyt.Action]*spec{}
	}
	root.flow.edges[from][a] = to
}
