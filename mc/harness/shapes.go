package main

// shapes.go: the closed family of (nested) flow shapes used by C04, C05, C10.
//
// Base shapes over leaf slots:
//   chain1: [A]            chain2: A -go-> B          chain3: A -go-> B -go-> C
//   branch: A -l-> B, A -r-> C
//   loop:   A -again-> A, A -exit-> B
//   nilend: A -go-> nil (explicit nil connection), A -r-> B
// At most one slot of a shape is replaced by a nested flow (recursively, to
// the given depth); the others are leaves whose kinds and retry budgets rotate.

import (
	"fmt"
	"sort"

	flyt "github.com/mark3labs/flyt"
)

type shapeGen struct {
	leafKinds []int
	counter   int
	reuse     bool // place the SAME inner flow object in two slots where the shape has room
	forceN    int  // > 0: every leaf gets this retry budget (instead of alternating 1, 2)
}

// rotationOf: where in the kind list a scenario starts, so that across the scenarios of a
// family every kind (and every kind x budget x fallback combination) gets its turn at every
// position of the shapes.
func rotationOf(name string) int {
	h := 0
	for i := 0; i < len(name); i++ {
		h = (h*31 + int(name[i])) % 5040
	}
	return h
}

func (g *shapeGen) leaf(path string) *spec {
	k := g.leafKinds[g.counter%len(g.leafKinds)]
	n := 1 + g.counter%2
	if g.forceN > 0 {
		n = g.forceN
	}
	g.counter++
	return &spec{id: fmt.Sprintf("%s:%s", path, kindShort(k)), kind: k, n: n, fb: kindIsFunc(k) && g.counter%3 == 0}
}

func kindShort(k int) string {
	switch k {
	case kBase:
		return "B"
	case kBaseFb:
		return "Bf"
	case kBare:
		return "P"
	case kBareRetry:
		return "Pr"
	case kBareFb:
		return "Pf"
	case kFuncR:
		return "R"
	case kFuncA:
		return "A"
	case kFuncRB:
		return "Rb"
	case kFuncAB:
		return "Ab"
	case kLog:
		return "L"
	}
	return "M"
}

// shapes 0..5 are the core family; 6..8 are the extended ones (used at nesting
// depth <= 2): a flow that contains ITSELF as a node, a dead edge on the empty
// action, and a flow with retries configured on the flow itself.
const (
	numCoreShapes = 6
	numBaseShapes = 10
	shSelfRec     = 6
	shEmptyEdge   = 7
	shFlowRetry   = 8
	shDefaultEdge = 9 // the everyday wiring: a connection on the default action next to a named one
)

var baseSlots = [numBaseShapes]int{1, 2, 3, 3, 2, 2, 2, 3, 2, 3}
var baseNames = [numBaseShapes]string{"chain1", "chain2", "chain3", "branch", "loop", "nilend", "selfrec", "emptyedge", "flowretry2", "dfltedge"}

func (d *shapeDesc) uses(base int) bool {
	return d != nil && (d.base == base || d.inner.uses(base))
}

// shapeDesc identifies one member of the family: base shape, and optionally
// which slot holds a nested flow of which description.
type shapeDesc struct {
	base  int
	slot  int // -1: all leaves
	inner *shapeDesc
	reuse bool // the inner flow object is ALSO placed in the next slot
}

func (d *shapeDesc) String() string {
	if d.slot < 0 {
		return baseNames[d.base]
	}
	r := ""
	if d.reuse {
		r = "*2"
	}
	return fmt.Sprintf("%s[%d=%s%s]", baseNames[d.base], d.slot, d.inner, r)
}

// enumShapes lists all descriptions up to nesting depth `depth` (1 = flat).
// enumShapes: the core family to the given depth, plus every shape of depth <= 2
// that uses an extended base shape.
func enumShapes(depth int, withReuse bool) []*shapeDesc {
	res := enumShapesN(depth, withReuse, numCoreShapes)
	d2 := 2
	if depth < 2 {
		d2 = depth
	}
	for _, d := range enumShapesN(d2, withReuse, numBaseShapes) {
		if d.uses(shSelfRec) || d.uses(shEmptyEdge) || d.uses(shFlowRetry) || d.uses(shDefaultEdge) {
			res = append(res, d)
		}
	}
	return res
}

func enumShapesN(depth int, withReuse bool, nb int) []*shapeDesc {
	var res []*shapeDesc
	for b := 0; b < nb; b++ {
		res = append(res, &shapeDesc{base: b, slot: -1})
	}
	if depth <= 1 {
		return res
	}
	inner := enumShapesN(depth-1, withReuse, nb)
	for b := 0; b < nb; b++ {
		for s := 0; s < baseSlots[b]; s++ {
			for _, in := range inner {
				res = append(res, &shapeDesc{base: b, slot: s, inner: in})
				if withReuse && s+1 < baseSlots[b] && in.slot < 0 {
					res = append(res, &shapeDesc{base: b, slot: s, inner: in, reuse: true})
				}
			}
		}
	}
	return res
}

// build creates the spec tree for a description.
func (g *shapeGen) build(d *shapeDesc, path string) *spec {
	slots := make([]*spec, baseSlots[d.base])
	for i := range slots {
		if i == d.slot {
			slots[i] = g.build(d.inner, fmt.Sprintf("%s/%d", path, i))
		} else if d.reuse && i == d.slot+1 {
			slots[i] = slots[d.slot]
		} else {
			slots[i] = g.leaf(fmt.Sprintf("%s/%d", path, i))
		}
	}
	f := &flowSpec{start: slots[0], edges: map[*spec]map[flyt.Action]*spec{}}
	root := &spec{id: path + "#" + baseNames[d.base], flow: f}
	e := func(from *spec, a flyt.Action, to *spec) { setEdge(root, from, a, to) }
	switch d.base {
	case 0:
	case 1:
		e(slots[0], "go", slots[1])
	case 2:
		e(slots[0], "go", slots[1])
		e(slots[1], "go", slots[2])
	case 3:
		e(slots[0], "l", slots[1])
		e(slots[0], "r", slots[2])
	case 4:
		e(slots[0], "again", slots[0])
		e(slots[0], "exit", slots[1])
	case 5:
		e(slots[0], "go", nil)
		e(slots[0], "r", slots[1])
	case shSelfRec:
		e(slots[0], "again", root) // the flow is a node of itself
		e(root, "l", slots[1])     // routed on the action the inner activation ends with
	case shEmptyEdge:
		e(slots[0], "", slots[1]) // a dead edge: a successful node never presents the empty action
		e(slots[0], "go", slots[2])
	case shDefaultEdge:
		e(slots[0], flyt.DefaultAction, slots[1])
		e(slots[0], "l", slots[2])
	case shFlowRetry:
		e(slots[0], "go", slots[1])
		root.n = 2 // WithMaxRetries(2) on the flow's own BaseNode: a failing child re-runs the whole flow
	}
	return root
}

// shapeActions: the actions a leaf may answer (first = default choice).
var shapeActions = []flyt.Action{"go", "l", "r", "again", "exit", "", flyt.DefaultAction}

// collectActions: for every leaf, the post answers worth offering: every
// action connected from the leaf in its own flow, every action connected from
// an enclosing flow-node in ITS parent (the inner flow presents its last
// node's action), plus one action that is connected nowhere.
func collectActions(root *spec) map[*spec][]flyt.Action {
	acts := map[*spec][]flyt.Action{}
	seenFlow := map[*spec]bool{}
	var add func(n *spec, a flyt.Action)
	add = func(n *spec, a flyt.Action) {
		for _, x := range acts[n] {
			if x == a {
				return
			}
		}
		acts[n] = append(acts[n], a)
		if a == flyt.DefaultAction {
			add(n, "") // the empty answer is the other way of saying "default"
		}
	}
	// leavesOf: the leaves that can be the LAST node of flow-node f (conservatively: all its leaves)
	var leavesOf func(n *spec, seen map[*spec]bool) []*spec
	leavesOf = func(n *spec, seen map[*spec]bool) []*spec {
		if n == nil || seen[n] {
			return nil
		}
		seen[n] = true
		if n.flow == nil {
			return []*spec{n}
		}
		var out []*spec
		out = append(out, leavesOf(n.flow.start, seen)...)
		for from, m := range n.flow.edges {
			out = append(out, leavesOf(from, seen)...)
			for _, to := range m {
				out = append(out, leavesOf(to, seen)...)
			}
		}
		return out
	}
	var walk func(f *spec)
	walk = func(f *spec) {
		if f == nil || f.flow == nil || seenFlow[f] {
			return
		}
		seenFlow[f] = true
		walk(f.flow.start)
		for from, m := range f.flow.edges {
			for _, a := range shapeActions {
				if _, ok := m[a]; ok {
					for _, l := range leavesOf(from, map[*spec]bool{}) {
						add(l, a)
					}
				}
			}
			walk(from)
			for _, to := range m {
				walk(to)
			}
		}
	}
	walk(root)
	for _, l := range leavesOf(root, map[*spec]bool{}) {
		add(l, "zz")
	}
	// map iteration above is unordered: canonicalise so that menus are deterministic
	rank := func(a flyt.Action) int {
		for i, x := range shapeActions {
			if x == a {
				return i
			}
		}
		return len(shapeActions)
	}
	for n := range acts {
		l := acts[n]
		sort.SliceStable(l, func(i, j int) bool { return rank(l[i]) < rank(l[j]) })
	}
	return acts
}
