package main

// C17 function-style nodes pass values between phases unchanged: all 8 style
// mixes (Result/Any for prep, exec, post) x option-style and builder-style
// construction x payload catalogue (incl. an error Result returned by exec) x
// {single run, node in a flow}, plus batch items (sequential and concurrent).

import (
	"errors"
	"fmt"

	flyt "github.com/mark3labs/flyt"
	"github.com/mark3labs/flyt/zzvrt/core"
)

func init() {
	register(&Property{ID: "C17", Instr: true, Gen: genC17})
}

type stT struct {
	A int
	B []string
}

var (
	c17Ptr   = &payloadT{"p"}
	c17Map   = map[string]any{"k": []int{1}}
	c17Slice = []string{"x", "y"}
	c17Err   = errors.New("exec-error-result")
)

// errPayload is a perfectly good payload whose type happens to have an Error() method.
type errPayload struct{ code int }

func (e *errPayload) Error() string { return fmt.Sprintf("code %d", e.code) }

var c17ErrVal = &errPayload{code: 7}

func c17Payloads() []any {
	return []any{nil, 7, "s", c17Ptr, c17Map, c17Slice, stT{A: 1, B: []string{"b"}},
		(*payloadT)(nil), map[string]any(nil), []int(nil), 0, "", false,
		c17ErrVal, flyt.NewResult("a Result that is the payload itself")} // a value whose type implements error is still a value when returned with a nil error // typed nils and zero values keep their dynamic type
}

func styleScenario(prepR, execR, postR, builder, inFlow bool) Scenario {
	name := fmt.Sprintf("styles prep=%s exec=%s post=%s construction=%s context=%s", rs(prepR), rs(execR), rs(postR), map[bool]string{false: "options", true: "builder"}[builder], map[bool]string{false: "Run", true: "flow"}[inFlow])
	var label string
	body := func() {
		ps := c17Payloads()
		// (the last payload, a non-error Result used as a value, is offered to exec only: a prep
		// value that is itself a Result is by design taken as "already wrapped" — the batch path
		// hands items to Exec that way — and the property's list of payload kinds does not have it)
		P := ps[core.Choose(len(ps)-1)]
		// exec outcome: a payload, or (Result style only) an error Result
		nE := len(ps)
		if execR {
			nE++
		}
		ei := core.Choose(nE)
		var E any
		errRes := ei == len(ps)
		if !errRes {
			E = ps[ei]
		}
		label = fmt.Sprintf("P=%T E=%T errRes=%v", P, E, errRes)
		calls := 0
		store := flyt.NewSharedStore()
		checkPrepSeenByExec := func(x any, isErr bool) {
			if isErr {
				core.Problem("exec received an error Result as the prep value")
			}
			if _, nested := x.(flyt.Result); nested && !isResult(P) {
				core.Problem("exec received a Result wrapped in a Result")
			}
			if !sameValue(x, P) {
				core.Problem("exec received %s, prep returned %s", descVal(x), descVal(P))
			}
		}
		prepFR := func(_ ctxT, st *flyt.SharedStore) (flyt.Result, error) { calls++; return flyt.NewResult(P), nil }
		prepFA := func(_ ctxT, st *flyt.SharedStore) (any, error) { calls++; return P, nil }
		execFR := func(_ ctxT, x flyt.Result) (flyt.Result, error) {
			calls++
			checkPrepSeenByExec(x.Value(), x.IsError())
			if errRes {
				return flyt.NewErrorResult(c17Err), nil
			}
			return flyt.NewResult(E), nil
		}
		execFA := func(_ ctxT, x any) (any, error) {
			calls++
			checkPrepSeenByExec(x, false)
			return E, nil
		}
		postFR := func(_ ctxT, st *flyt.SharedStore, pp, ee flyt.Result) (flyt.Action, error) {
			calls++
			if pp.IsError() || !sameValue(pp.Value(), P) {
				core.Problem("post (Result style) received prep value %s (err=%v), prep returned %s", descVal(pp.Value()), pp.Error(), descVal(P))
			}
			if errRes {
				if !ee.IsError() {
					core.Problem("exec returned an error Result but post (Result style) received IsError()==false, value %s (wrapped a second time or stripped)", descVal(ee.Value()))
				} else if ee.Error() != c17Err {
					core.Problem("post (Result style) received error %v, exec returned %v", ee.Error(), c17Err)
				}
				return "done", nil
			}
			if ee.IsError() {
				core.Problem("post (Result style) received an error Result (%v) although exec returned a value", ee.Error())
			}
			if _, nested := ee.Value().(flyt.Result); nested && !isResult(E) {
				core.Problem("post (Result style) received a Result wrapped in a Result")
			}
			if !sameValue(ee.Value(), E) {
				core.Problem("post (Result style) received exec value %s, exec returned %s", descVal(ee.Value()), descVal(E))
			}
			return "done", nil
		}
		postFA := func(_ ctxT, st *flyt.SharedStore, pp, ee any) (flyt.Action, error) {
			calls++
			if !sameValue(pp, P) {
				core.Problem("post (Any style) received prep value %s, prep returned %s", descVal(pp), descVal(P))
			}
			if errRes {
				r, ok := ee.(flyt.Result)
				switch {
				case !ok:
					core.Problem("exec returned an error Result but post (Any style) received %s: the error state was stripped", descVal(ee))
				case !r.IsError() || r.Error() != c17Err:
					core.Problem("post (Any style) received a Result with IsError()=%v Error()=%v, exec returned error %v", r.IsError(), r.Error(), c17Err)
				}
				return "done", nil
			}
			if _, nested := ee.(flyt.Result); nested && !isResult(E) {
				core.Problem("post (Any style) received a Result instead of the plain exec value")
			}
			if !sameValue(ee, E) {
				core.Problem("post (Any style) received exec value %s, exec returned %s", descVal(ee), descVal(E))
			}
			return "done", nil
		}
		// a fallback and a retry budget may be configured as well: exec did not fail (an error
		// Result with a nil error is a result), so neither may come into play
		withFb := core.Choose(2) == 1
		fbF := func(p any, e error) (any, error) {
			core.Problem("the fallback was invoked (with error %v) although exec returned without error", e)
			return "recovered-by-fallback", nil
		}
		var node flyt.Node
		if builder {
			b := flyt.NewNode()
			if withFb {
				b = b.WithExecFallbackFunc(fbF).WithMaxRetries(2)
			}
			if prepR {
				b = b.WithPrepFunc(prepFR)
			} else {
				b = b.WithPrepFuncAny(prepFA)
			}
			if execR {
				b = b.WithExecFunc(execFR)
			} else {
				b = b.WithExecFuncAny(execFA)
			}
			if postR {
				b = b.WithPostFunc(postFR)
			} else {
				b = b.WithPostFuncAny(postFA)
			}
			node = b
		} else {
			var o []any
			if withFb {
				o = append(o, flyt.WithExecFallbackFunc(fbF), flyt.WithMaxRetries(2))
			}
			if prepR {
				o = append(o, flyt.WithPrepFunc(prepFR))
			} else {
				o = append(o, flyt.WithPrepFuncAny(prepFA))
			}
			if execR {
				o = append(o, flyt.WithExecFunc(execFR))
			} else {
				o = append(o, flyt.WithExecFuncAny(execFA))
			}
			if postR {
				o = append(o, flyt.WithPostFunc(postFR))
			} else {
				o = append(o, flyt.WithPostFuncAny(postFA))
			}
			node = flyt.NewNode(o...)
		}
		var err error
		var act flyt.Action
		if inFlow {
			first := flyt.NewNode()
			f := flyt.NewFlow(first).Connect(first, flyt.DefaultAction, node)
			err = f.Run(ctxBackground(), store)
			act = "done"
		} else {
			act, err = flyt.Run(ctxBackground(), node, store)
		}
		if err != nil || act != "done" {
			core.Problem("run returned (%q, %v)", act, err)
		}
		if calls != 3 {
			core.Problem("%d of the 3 functions were called", calls)
		}
	}
	return Scenario{Name: name, Body: body, Check: stdCheck(func() string { return label })}
}

// isResult: the payload itself is a Result value (then receiving a Result is receiving the payload)
func isResult(v any) bool { _, ok := v.(flyt.Result); return ok }

func rs(r bool) string {
	if r {
		return "Result"
	}
	return "Any"
}

func genC17(tier string) []Scenario {
	var out []Scenario
	for m := 0; m < 8; m++ {
		for _, builder := range []bool{false, true} {
			for _, inFlow := range []bool{false, true} {
				out = append(out, styleScenario(m&1 != 0, m&2 != 0, m&4 != 0, builder, inFlow))
			}
		}
	}
	// batch items: the slot holds exactly what exec returned (value, error, or error Result)
	errResMenu := func(i, k int) []answer {
		return []answer{{val: okVal(i)}, {val: errResultMarker{err: itemErr(i, k)}}, {err: itemErr(i, k)}, {val: nil}}
	}
	anyMenu := func(i, k int) []answer { return []answer{{val: okVal(i)}, {err: itemErr(i, k)}, {val: nil}} }
	errValMenu := func(i, k int) []answer { return []answer{{val: okVal(i)}, {val: c17ErrVal}, {err: itemErr(i, k)}} }
	for _, c := range []int{0, 2} {
		sc := batchScn{name: fmt.Sprintf("styles-batch-error-typed-value n=2 c=%d anyExec=true", c), n: 2, c: c, budget: 1, shape: shResults, yield: c > 0, anyExec: true,
			execMenu: errValMenu, postMenu: postX, bound: 0, chkPositional: true}
		out = append(out, sc.scenario())
		// stop mode: an item that completed keeps its own result whatever happened to its neighbours
		sc2 := batchScn{name: fmt.Sprintf("styles-batch-stopmode n=3 c=%d", c), n: 3, c: c, stop: true, budget: 1, shape: shResults, yield: c > 0,
			execMenu: okOrErrMenu, postMenu: postX, bound: 1, chkPositional: true}
		out = append(out, sc2.scenario())
	}
	for _, c := range []int{0, 2} {
		for _, anyExec := range []bool{false, true} {
			menu := errResMenu
			if anyExec {
				menu = anyMenu
			}
			n, bd := 2, 0
			if tier == "thorough" {
				n, bd = 3, 2
			}
			sc := batchScn{name: fmt.Sprintf("styles-batch n=%d c=%d anyExec=%v", n, c, anyExec), n: n, c: c, budget: 1, shape: shResults, yield: c > 0, anyExec: anyExec,
				execMenu: menu, postMenu: postX, bound: bd, chkPositional: true}
			out = append(out, sc.scenario())
			// a batch of exactly one item is a batch like any other; and with a fallback / retry
			// budget configured an error Result returned without error is still not a failure
			sc1 := batchScn{name: fmt.Sprintf("styles-batch n=1 c=%d anyExec=%v", c, anyExec), n: 1, c: c, budget: 1, shape: shResults, yield: c > 0, anyExec: anyExec,
				execMenu: menu, postMenu: postX, bound: 0, chkPositional: true}
			out = append(out, sc1.scenario())
			sc2 := batchScn{name: fmt.Sprintf("styles-batch n=2 c=%d anyExec=%v budget=2 fallback=true", c, anyExec), n: 2, c: c, budget: 2, fb: true, shape: shResults, yield: c > 0, anyExec: anyExec,
				execMenu: menu, fbMenu: fbOkOrErr, postMenu: postX, bound: 0, chkPositional: true, chkPerItem: true}
			out = append(out, sc2.scenario())
		}
	}
	// a VALUE-returning prep that hands back one slice object, refilled in place, in every run: the
	// items exec and post receive are the values that slice holds in THAT run
	for _, c := range []int{0, 2} {
		for _, anyExec := range []bool{false, true} {
			sc := batchScn{name: fmt.Sprintf("styles-batch value-prep same slice refilled n=2 c=%d anyExec=%v runs=3", c, anyExec), n: 2, c: c, budget: 1, shape: shAny, sameSlice: true, yield: c > 0, anyExec: anyExec,
				execMenu: okMenu, postMenu: postX, bound: 0, chkPositional: true, runs: 3}
			out = append(out, sc.scenario())
		}
	}
	// error Results returned from deep inside large batches keep their state as well
	sizeSweep(&out, "styles-batch", nil)
	return out
}
