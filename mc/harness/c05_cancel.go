package main

// C05 cancellation stops runs and flows and is reported as such: the context
// is cancelled before the run, or from inside the k-th callback invocation for
// every k (lazily: at every callback the explorer chooses "cancel now"), on the
// closed family of nested flow shapes, for cancel- and deadline-style contexts.

import (
	"context"
	"errors"
	"fmt"
	"strings"
	"time"

	flyt "github.com/mark3labs/flyt"
	"github.com/mark3labs/flyt/zzvrt/core"
)

func init() {
	register(&Property{ID: "C05", Instr: true, Gen: genC05})
}

type cancelState struct {
	ctx   *core.Ctx
	err   error
	at    int // index of the callback during which the context was cancelled (-1: not yet, -2: before the run)
	node  *spec
	visit int
}

// cancelMenu: prep ok; exec ok|err (one failure per run); fallback ok; post actions.
func cancelMenu(acts map[*spec][]flyt.Action, loopHorizon int) func(h *H, c call) []answer {
	return func(h *H, c call) []answer {
		switch c.ph {
		case pPrep:
			return []answer{{val: pvPtr}}
		case pExec:
			m := []answer{{val: evPtr}}
			if h.ctx.Err() != nil {
				// a well-behaved exec notices the cancellation and returns (a wrapper of) ctx.Err()
				m = append(m, answer{err: ctxAbortErr(h.ctx.Err())})
			}
			for _, a := range h.answers {
				if a.err != nil && !isCtxAbort(a.err) {
					return m
				}
			}
			return append(m, answer{err: errExec[c.attempt]})
		case pFallback:
			return []answer{{val: fvPtr}}
		}
		var m []answer
		for _, a := range acts[c.node] {
			if a == "again" && h.countAction("again") >= loopHorizon {
				continue
			}
			m = append(m, answer{action: a})
		}
		return m
	}
}

var (
	errAbortCanceled = fmt.Errorf("exec aborted: %w", context.Canceled)
	errAbortDeadline = fmt.Errorf("exec aborted: %w", context.DeadlineExceeded)
)

func ctxAbortErr(e error) error {
	if errors.Is(e, context.DeadlineExceeded) {
		return errAbortDeadline
	}
	return errAbortCanceled
}

func isCtxAbort(e error) bool { return e == errAbortCanceled || e == errAbortDeadline }

func isBatchKind(k int) bool { return k == kLogBatch || k == kLogBatchBare }

func cancelScenario(name string, d *shapeDesc, kinds []int, deadline, before, asNode bool) Scenario {
	return cancelScenarioRot(name, d, kinds, deadline, before, asNode, rotationOf(name))
}

// forcedBudget: the retry budget of every leaf in the scenario being generated (0: alternate 1, 2)
var forcedBudget int

// cancelScenarioRot: rot fixes which kind the first leaf gets.  Batch-node kinds may be among
// the leaves: the context is then cancelled only inside callbacks of the OTHER nodes (what a
// batch does when cancelled from inside is C11's subject), and their item executions always
// succeed; the rule "no further node of the flow is started" covers them as successors.
// forcedCause: the context of the scenarios built while it is set is a child of a standard
// context.WithCancelCause context that is cancelled WITH A CUSTOM CAUSE: context.Cause(ctx) then
// differs from ctx.Err(), and it is ctx.Err() the run's error has to match.
var forcedCause bool

func cancelScenarioRot(name string, d *shapeDesc, kinds []int, deadline, before, asNode bool, rot int) Scenario {
	budget := forcedBudget
	withCause := forcedCause
	var h *H
	var root *spec
	var menu func(h *H, c call) []answer
	var cs *cancelState
	body := func() {
		if root == nil {
			g := &shapeGen{leafKinds: kinds, counter: rot, forceN: budget}
			root = g.build(d, "r")
			base := cancelMenu(collectActions(root), 2)
			menu = func(h *H, c call) []answer {
				m := base(h, c)
				if isBatchKind(c.node.kind) && c.ph == pExec {
					return m[:1]
				}
				return m
			}
		}
		h = newH(root)
		h.menu = menu
		h.topDown = rotationOf(name)%2 == 1 // half of the scenarios wire nested flows top-down
		cs = &cancelState{at: -1}
		var stdCancel context.CancelCauseFunc
		if deadline {
			c, _ := core.WithDeadline(context.Background(), core.Now().Add(24*time.Hour))
			cs.ctx, cs.err = c, context.DeadlineExceeded
			if _, ok := c.Deadline(); !ok {
				core.Problem("harness: deadline context reports no deadline")
			}
		} else {
			var parent context.Context = context.Background()
			if withCause {
				parent, stdCancel = context.WithCancelCause(parent)
			}
			c, _ := core.WithCancel(parent)
			cs.ctx, cs.err = c, context.Canceled
		}
		h.ctx = cs.ctx
		if before {
			if stdCancel != nil {
				stdCancel(errCustomCause)
			}
			cs.ctx.CancelInline(cs.err)
			cs.at = -2
		}
		h.preCall = func(h *H, c call) {
			if cs.at == -2 {
				core.Problem("callback %s invoked although the context was done before the run", c)
				return
			}
			if cs.at >= 0 {
				// after the cancellation only the fallback / post of the SAME node visit may still run
				if c.node != cs.node || c.visit != cs.visit || (c.ph != pFallback && c.ph != pPost) {
					what := "a further node was started"
					if c.ph == pExec {
						what = "a new exec attempt was started"
					}
					core.Problem("%s after the context was cancelled (during callback #%d %s#%d): %s", what, cs.at, cs.node.id, cs.visit, c)
				}
			}
		}
		// after the cancellation the fallback / post of the SAME node visit may run even where the
		// uncancelled reference would have made another attempt first: tolerated, but the run was
		// then cut short and must say so
		h.allowDeviation = func(hh *H, exp, got call) bool {
			return cs.at >= 0 && got.node == cs.node && got.visit == cs.visit && (got.ph == pFallback || got.ph == pPost)
		}
		h.onCall = func(h *H, c call) {
			if cs.at == -1 && !isBatchKind(c.node.kind) && core.Choose(2) == 1 {
				cs.at, cs.node, cs.visit = len(h.calls)-1, c.node, c.visit
				core.Logf("cancel inside %s", c)
				if stdCancel != nil {
					stdCancel(errCustomCause)
				}
				cs.ctx.CancelInline(cs.err)
			}
		}
		node := h.build(root)
		var a flyt.Action
		var err error
		if asNode {
			a, err = flyt.Run(h.ctx, node, h.store)
		} else {
			err = node.(*flyt.Flow).Run(h.ctx, h.store)
			if err == nil {
				a = "?"
			}
		}
		core.Logf("run returned (%q, %v)", a, err)
		switch {
		case cs.at == -1: // never cancelled
			if asNode {
				h.finish(a, err)
			} else {
				h.finishErrOnly(err)
			}
		case cs.at == -2:
			if len(h.calls) != 0 {
				core.Problem("%d callbacks ran although the context was done before the run", len(h.calls))
			}
			if err == nil || !errors.Is(err, cs.err) {
				core.Problem("run on a done context returned %v, want an error matching %v", err, cs.err)
			}
		default:
			_, out, done := simulate(h.root, h.store, h.answers)
			matchesCtx := err != nil && errors.Is(err, cs.err)
			if h.diverged {
				// an attempt the uncancelled run would have made was skipped: the run was cut short
				done = false
			}
			if !done {
				// cut short
				if err == nil {
					core.Problem("run was cut short by the cancellation (after %s) but reported success", h.traceString())
				} else if !matchesCtx {
					core.Problem("run cut short by the cancellation returned %q which does not match the context's error %v", err, cs.err)
				}
			} else if !matchesCtx {
				// ran to completion despite the cancellation: must then equal the uncancelled outcome
				if out.err == nil && err != nil {
					core.Problem("run completed its whole path but returned %v (neither the uncancelled result nor the context's error)", err)
				}
				if out.err != nil && (err == nil || !errors.Is(err, out.err)) {
					core.Problem("run returned %v, want the callback error %v or the context's error", err, out.err)
				}
				if out.err == nil && asNode && a != out.action {
					core.Problem("run returned action %q, uncancelled reference says %q", a, out.action)
				}
			}
		}
	}
	return Scenario{Name: name, Body: body, Check: stdCheck(func() string {
		if h == nil {
			return "?"
		}
		return fmt.Sprintf("%s cancel@%d", h.traceString(), cs.at)
	})}
}

var c05Kinds = []int{kBase, kBaseFb, kBare, kFuncR, kFuncA, kBareRetry, kFuncAB}

func genC05(tier string) []Scenario {
	var out []Scenario
	depth := 3
	if tier == "thorough" {
		depth = 4
	}
	for i, d := range enumShapes(depth, false) {
		deep := d.slot >= 0 && d.inner.slot >= 0
		for _, deadline := range []bool{false, true} {
			if deadline && deep && tier != "thorough" {
				continue
			}
			kind := "cancel"
			if deadline {
				kind = "deadline"
			}
			out = append(out, cancelScenario(fmt.Sprintf("%s-inside shape#%d=%s", kind, i, d), d, c05Kinds, deadline, false, i%2 == 0))
			if !deep {
				out = append(out, cancelScenario(fmt.Sprintf("%s-before shape#%d=%s", kind, i, d), d, c05Kinds, deadline, true, i%2 == 1))
			}
		}
	}
	// batch nodes among the nodes of a flow: cancelled while one of the OTHER nodes runs, the
	// flow must not start the batch node either (its prep / post are callbacks like any other)
	withBatch := []int{kFuncA, kLogBatch, kBase, kLogBatchBare}
	for _, base := range []int{1, 2, 3, 4, shDefaultEdge} {
		for rot := 0; rot < 4; rot++ {
			d := &shapeDesc{base: base, slot: -1}
			out = append(out, cancelScenarioRot(fmt.Sprintf("cancel-inside with-batch-nodes shape=%s rotation=%d", d, rot), d, withBatch, false, false, rot%2 == 0, rot))
		}
	}
	// cancellation arriving from ANOTHER goroutine while the run sits in a retry wait (virtual
	// time): the run is cut short there and must report the context's error, bare and inside flows
	for _, kind := range []int{kBase, kFuncR} {
		for _, w := range []time.Duration{time.Millisecond, time.Hour} {
			for _, inFlow := range []bool{false, true} {
				for j := 0; j < 2; j++ {
					out = append(out, waitScn{kind: kind, w: w, n: 3, cancelJ: j, d: w / 2, bound: 1, inFlow: inFlow}.scenario())
				}
			}
		}
	}
	// one flow object run twice, the first run possibly failing under a context that stays alive
	for _, nested := range []bool{false, true} {
		out = append(out, failThenCancelScenario(nested))
	}
	// contexts cancelled WITH A CUSTOM CAUSE: the run's error still matches ctx.Err()
	forcedCause = true
	for kind := 0; kind < numKinds; kind++ {
		for _, before := range []bool{false, true} {
			sc := cancelNodeScenario(kind, 2, false, before)
			sc.Name += " with-cause"
			out = append(out, sc)
		}
	}
	for _, base := range []int{1, 2, 3, 4} {
		d := &shapeDesc{base: base, slot: -1}
		for _, before := range []bool{false, true} {
			out = append(out, cancelScenarioRot(fmt.Sprintf("cancel-with-cause before=%v shape=%s", before, d), d, c05Kinds, false, before, base%2 == 0, base))
		}
	}
	forcedCause = false
	// one flow object re-wired between three runs, the last one cancelled
	for _, deadline := range []bool{false, true} {
		out = append(out, rewireCancelScenario(deadline))
	}
	// larger budgets for two kinds (a cancellation inside the 1st … 5th failing attempt of 6)
	for _, kind := range []int{kBaseFb, kFuncRB} {
		for _, n := range []int{5, 6} {
			out = append(out, cancelNodeScenario(kind, n, false, false))
		}
	}
	// single nodes of every kind, budgets 1..3
	for kind := 0; kind < numKinds; kind++ {
		for n := 1; n <= 3; n++ {
			kind, n := kind, n
			for _, deadline := range []bool{false, true} {
				for _, before := range []bool{false, true} {
					out = append(out, cancelNodeScenario(kind, n, deadline, before))
				}
			}
		}
	}
	return out
}

// cancelNodeScenario: a single node (not in a flow) with exec ok|err at every attempt.
func cancelNodeScenario(kind, n int, deadline, before bool) Scenario {
	d := &shapeDesc{base: 0, slot: -1}
	forcedBudget = n
	sc := cancelScenario(fmt.Sprintf("node-cancel kind=%s N=%d deadline=%v before=%v", kindNames[kind], n, deadline, before), d, []int{kind}, deadline, before, true)
	forcedBudget = 0
	return sc
}

// rewireCancelScenario: one flow object over three runs with one wiring step before each —
// Connect(n0|n1|inner, "a", nil|n1|n2|inner) or nothing, where inner is a nested flow — and the
// THIRD run cancelled before it starts or inside any one callback: whatever the flow kept from the
// earlier wirings and runs, no further node starts after the cancellation and a run cut short
// reports the context's error.  13^3 wiring histories × every cancellation point.
func rewireCancelScenario(deadline bool) Scenario {
	var h *H
	var cs *cancelState
	body := func() {
		ns := []*spec{{id: "n0", kind: kLog, n: 1}, {id: "n1", kind: kLog, n: 1}, {id: "n2", kind: kLog, n: 1}}
		m0 := &spec{id: "m0", kind: kLog, n: 1}
		inner := &spec{id: "inner", flow: &flowSpec{start: m0, edges: map[*spec]map[flyt.Action]*spec{}}}
		root := &spec{id: "flow", flow: &flowSpec{start: ns[0], edges: map[*spec]map[flyt.Action]*spec{}}}
		h = newH(root)
		h.menu = func(hh *H, c call) []answer {
			if c.ph != pPost {
				return []answer{{val: nil}}
			}
			total := 0
			for _, v := range hh.visits {
				total += v
			}
			if total >= 4 {
				return []answer{{action: "zz"}}
			}
			return []answer{{action: "a"}}
		}
		froms := []*spec{ns[0], ns[1], inner}
		tos := []*spec{nil, ns[1], ns[2], inner}
		for _, s := range []*spec{ns[0], ns[1], ns[2], inner} {
			h.build(s)
		}
		f := flyt.NewFlow(h.nodes[ns[0]])
		h.nodes[root] = f
		wire := func() {
			op := core.Choose(13)
			if op == 12 {
				return
			}
			from, to := froms[op/4], tos[op%4]
			var toNode flyt.Node
			if to != nil {
				toNode = h.nodes[to]
			}
			core.Logf("Connect(%s,\"a\",%v)", from.id, to)
			f.Connect(h.nodes[from], "a", toNode)
			setEdge(root, from, "a", to)
		}
		wire()
		h.runFlowOnce(f, "run 1")
		wire()
		h.runFlowOnce(f, "run 2")
		wire()
		// run 3, cancelled
		h.closeRef()
		h.answers, h.calls = nil, nil
		h.visits = map[*spec]int{}
		h.store = flyt.NewSharedStore()
		cs = &cancelState{at: -1}
		if deadline {
			c, _ := core.WithDeadline(context.Background(), core.Now().Add(24*time.Hour))
			cs.ctx, cs.err = c, context.DeadlineExceeded
		} else {
			c, _ := core.WithCancel(context.Background())
			cs.ctx, cs.err = c, context.Canceled
		}
		h.ctx = cs.ctx
		if core.Choose(2) == 1 {
			cs.ctx.CancelInline(cs.err)
			cs.at = -2
		}
		h.preCall = func(hh *H, c call) {
			if cs.at == -2 {
				core.Problem("run 3: callback %s invoked although the context was done before the run", c)
			} else if cs.at >= 0 && (c.node != cs.node || c.visit != cs.visit || c.ph != pPost) {
				core.Problem("run 3: a further node was started after the context was cancelled (during callback #%d %s#%d): %s", cs.at, cs.node.id, cs.visit, c)
			}
		}
		h.onCall = func(hh *H, c call) {
			if cs.at == -1 && core.Choose(2) == 1 {
				cs.at, cs.node, cs.visit = len(hh.calls)-1, c.node, c.visit
				core.Logf("cancel inside %s", c)
				cs.ctx.CancelInline(cs.err)
			}
		}
		err := f.Run(h.ctx, h.store)
		core.Logf("run 3: Flow.Run returned %v", err)
		h.hist = append(h.hist, fmt.Sprintf("%s cancel@%d", h.traceString(), cs.at))
		_, out, done := simulate(h.root, h.store, h.answers)
		matchesCtx := err != nil && errors.Is(err, cs.err)
		switch {
		case cs.at == -1:
			if err != nil || !done || out.err != nil {
				core.Problem("run 3 (not cancelled): returned %v, reference done=%v err=%v", err, done, out.err)
			}
		case cs.at == -2:
			if !matchesCtx {
				core.Problem("run 3 on a done context returned %v, want an error matching %v", err, cs.err)
			}
		case !done:
			if !matchesCtx {
				core.Problem("run 3 was cut short by the cancellation (after %s) but returned %v, want an error matching %v", h.traceString(), err, cs.err)
			}
		default:
			if err != nil && !matchesCtx {
				core.Problem("run 3 completed its whole path but returned %v", err)
			}
		}
	}
	return Scenario{Name: fmt.Sprintf("rewire-then-cancel three runs, a nested flow among the targets, deadline=%v", deadline), Body: body, Check: stdCheck(func() string {
		if h == nil {
			return "?"
		}
		return strings.Join(h.hist, " | ")
	})}
}

// failThenCancelScenario: ONE flow object (three nodes, the middle one optionally a nested flow of
// two) run twice through Run: the first run under a context A that stays alive, ended by a node's
// error or not; the second under A again or under a new context B, which is cancelled before the
// run or inside any callback.  The second run watches ITS context, whatever the first one left.
func failThenCancelScenario(nested bool) Scenario {
	var h *H
	var cs *cancelState
	body := func() {
		n0, n1, n2 := &spec{id: "n0", kind: kLog, n: 1}, &spec{id: "n1", kind: kLog, n: 1}, &spec{id: "n2", kind: kLog, n: 1}
		mid := n1
		if nested {
			m0, m1 := &spec{id: "m0", kind: kLog, n: 1}, &spec{id: "m1", kind: kLog, n: 1}
			mid = &spec{id: "inner", flow: &flowSpec{start: m0, edges: map[*spec]map[flyt.Action]*spec{m0: {"a": m1}}}}
		}
		root := &spec{id: "flow", flow: &flowSpec{start: n0, edges: map[*spec]map[flyt.Action]*spec{n0: {"a": mid}, mid: {"a": n2}}}}
		h = newH(root)
		failed := false
		h.menu = func(hh *H, c call) []answer {
			switch c.ph {
			case pPost:
				return []answer{{action: "a"}}
			case pExec:
				if hh.runNo == 0 && !failed {
					return []answer{{val: nil}, {err: errExec[0]}}
				}
			}
			return []answer{{val: nil}}
		}
		h.onCall = func(hh *H, c call) {}
		node := h.build(root)
		ctxA, _ := core.WithCancel(context.Background())
		h.ctx = ctxA
		a, err := flyt.Run(ctxA, node, h.store)
		for _, an := range h.answers {
			if an.err != nil {
				failed = true
			}
		}
		core.Logf("run 1 returned (%q, %v)", a, err)
		h.finish(a, err)
		h.hist = append(h.hist, h.traceString())
		// second run
		h.closeRef()
		h.runNo++
		h.answers, h.calls = nil, nil
		h.visits = map[*spec]int{}
		h.store = flyt.NewSharedStore()
		cs = &cancelState{at: -1, err: context.Canceled}
		cs.ctx = ctxA
		if core.Choose(2) == 1 {
			cs.ctx, _ = core.WithCancel(context.Background())
		}
		h.ctx = cs.ctx
		if core.Choose(2) == 1 {
			cs.ctx.CancelInline(cs.err)
			cs.at = -2
		}
		h.preCall = func(hh *H, c call) {
			if cs.at == -2 {
				core.Problem("run 2: callback %s invoked although the context was done before the run", c)
			} else if cs.at >= 0 && (c.node != cs.node || c.visit != cs.visit || c.ph != pPost) {
				core.Problem("run 2: a further node was started after the context was cancelled (during callback #%d %s#%d): %s", cs.at, cs.node.id, cs.visit, c)
			}
		}
		h.onCall = func(hh *H, c call) {
			if cs.at == -1 && core.Choose(2) == 1 {
				cs.at, cs.node, cs.visit = len(hh.calls)-1, c.node, c.visit
				core.Logf("cancel inside %s", c)
				cs.ctx.CancelInline(cs.err)
			}
		}
		a, err = flyt.Run(h.ctx, node, h.store)
		core.Logf("run 2 returned (%q, %v)", a, err)
		h.hist = append(h.hist, fmt.Sprintf("%s cancel@%d", h.traceString(), cs.at))
		_, out, done := simulate(h.root, h.store, h.answers)
		matchesCtx := err != nil && errors.Is(err, cs.err)
		switch {
		case cs.at == -1:
			h.finish(a, err)
		case cs.at == -2:
			if !matchesCtx {
				core.Problem("run 2 on a done context returned %v, want an error matching %v", err, cs.err)
			}
		case !done:
			if !matchesCtx {
				core.Problem("run 2 was cut short by the cancellation (after %s) but returned (%q, %v), want an error matching %v", h.traceString(), a, err, cs.err)
			}
		default:
			if err != nil && !matchesCtx && out.err == nil {
				core.Problem("run 2 completed its whole path but returned %v", err)
			}
		}
	}
	return Scenario{Name: fmt.Sprintf("fail-then-cancel two runs of one flow through Run, nested=%v", nested), Body: body, Check: stdCheck(func() string {
		if h == nil {
			return "?"
		}
		return strings.Join(h.hist, " | ")
	})}
}
