package main

// C18 a successful run never yields the empty action, for any node kind:
// every kind x post answer {"", default, "x"} x {Run directly, routed step of
// a flow whose default edge leads to a witness node}; batch nodes with 0..3
// items, concurrency 0..2, with and without a post function.

import (
	"context"
	"fmt"
	"github.com/mark3labs/flyt/zzvrt/core"

	flyt "github.com/mark3labs/flyt"
)

func init() {
	register(&Property{ID: "C18", Instr: true, Gen: genC18})
}

func actionMenu(witness *spec) func(h *H, c call) []answer {
	return func(h *H, c call) []answer {
		if c.ph == pExec && c.node.hasFallback() && c.node != witness {
			// the result may also come from a recovering fallback after failed attempts
			return []answer{{val: nil}, {err: errExec[c.attempt]}}
		}
		if c.ph != pPost {
			return []answer{{val: nil}}
		}
		if c.node == witness {
			return []answer{{action: "end"}}
		}
		return []answer{{action: ""}, {action: flyt.DefaultAction}, {action: "x"}}
	}
}

func genC18(tier string) []Scenario {
	var out []Scenario
	kinds := []int{kBase, kBaseFb, kBare, kBareRetry, kBareFb, kFuncR, kFuncA, kFuncRB, kFuncAB, kFuncMix, kBaseZero}
	for _, k := range kinds {
		for _, wrapInFlow := range []bool{false, true} { // KF: the node is the only node of an inner flow used as a node
			n := &spec{id: "n", kind: k, n: 1, fb: kindIsFunc(k)}
			var unit *spec = n
			kn := kindNames[k]
			if wrapInFlow {
				unit = &spec{id: "inner", flow: &flowSpec{start: n, edges: map[*spec]map[flyt.Action]*spec{}}}
				kn = "Flow(" + kn + ")"
				if k%2 == 1 {
					// the inner flow ends through EXPLICIT nil connections instead of missing ones
					unit.flow.edges[n] = map[flyt.Action]*spec{flyt.DefaultAction: nil, "x": nil}
					kn = "Flow-nil-ended(" + kindNames[k] + ")"
				}
			}
			// Run directly
			out = append(out, lifecycleScenario(fmt.Sprintf("action kind=%s place=Run", kn), unit, placeDirect, actionMenu(nil)))
			// routed step: default edge -> witness
			wit := &spec{id: "witness", kind: kBare, n: 1}
			root := &spec{id: "flow", flow: &flowSpec{start: unit, edges: map[*spec]map[flyt.Action]*spec{unit: {flyt.DefaultAction: wit}}}}
			out = append(out, lifecycleScenario(fmt.Sprintf("action kind=%s place=flow-with-default-edge", kn), root, placeDirect, actionMenu(wit)))
		}
	}
	posts := []answer{{action: ""}, {action: flyt.DefaultAction}, {action: "x"}}
	maxN, maxC := 3, 2
	if tier == "thorough" {
		maxN, maxC = 4, 3
	}
	for n := 0; n <= maxN; n++ {
		for c := 0; c <= maxC; c++ {
			for _, noPost := range []bool{false, true} {
				for _, inFlow := range []bool{false, true} {
					bd := 0
					if tier == "thorough" {
						bd = 2
					}
					sc := batchScn{name: fmt.Sprintf("action batch n=%d c=%d post=%v inFlow=%v", n, c, !noPost, inFlow), n: n, c: c, budget: 1, shape: shResults, yield: c > 0,
						execMenu: okOrErrMenu, postMenu: posts, noPost: noPost, inFlow: inFlow, bound: bd, chkAction: true}
					out = append(out, sc.scenario())
				}
			}
		}
	}
	// a cancelled batch either fails or still reports a proper action
	for n := 1; n <= 2; n++ {
		for _, c := range []int{0, 2} {
			for _, inFlow := range []bool{false, true} {
				sc := batchScn{name: fmt.Sprintf("action batch-cancelled n=%d c=%d inFlow=%v", n, c, inFlow), n: n, c: c, budget: 1, shape: shResults, yield: c > 0,
					execMenu: okMenu, postMenu: posts, inFlow: inFlow, bound: 0, chkAction: true, cancel: cancelSpec{kind: 1, lazy: true}}
				out = append(out, sc.scenario())
				sc.name += " before-run"
				sc.cancel = cancelSpec{kind: 1, before: true}
				out = append(out, sc.scenario())
			}
		}
	}
	// empty batches reached through the other prep shapes
	for _, sh := range []int{shNil, shNoPrep, shAny} {
		sc := batchScn{name: fmt.Sprintf("action batch n=0 shape=%s", shapeNames[sh]), n: 0, c: 0, budget: 1, shape: sh, execMenu: okMenu, postMenu: posts, bound: 0, chkAction: true}
		out = append(out, sc.scenario())
	}
	// a flow that has already run and is then given (or re-pointed to) a connection on the default
	// action: the next run follows it
	for _, form := range []string{"connection added after a run", "connection re-pointed after a run", "connection added after three runs", "default edge next to nine named ones"} {
		form := form
		body := func() {
			store := flyt.NewSharedStore()
			var ran []string
			mk := func(id string, act flyt.Action) flyt.Node {
				return flyt.NewNode().WithPostFuncAny(func(context.Context, *flyt.SharedStore, any, any) (flyt.Action, error) {
					ran = append(ran, id)
					return act, nil
				})
			}
			a, w1, w2 := mk("a", ""), mk("w1", "x"), mk("w2", "x") // a's post answers the EMPTY action
			f := flyt.NewFlow(a)
			if form == "connection re-pointed after a run" {
				f.Connect(a, flyt.DefaultAction, w1)
			}
			before := 1
			if form == "connection added after three runs" {
				f.Connect(a, flyt.DefaultAction, w1)
				before = 3
			}
			for r := 0; r < before; r++ {
				if err := f.Run(ctxBackground(), store); err != nil {
					core.Problem("%s: run %d failed: %v", form, r+1, err)
				}
			}
			f.Connect(a, flyt.DefaultAction, w2)
			if form == "default edge next to nine named ones" {
				for i := 1; i <= 9; i++ {
					f.Connect(a, flyt.Action(fmt.Sprintf("named-%d", i)), w1)
				}
			}
			ran = nil
			if err := f.Run(ctxBackground(), store); err != nil {
				core.Problem("%s: second run failed: %v", form, err)
			}
			if fmt.Sprint(ran) != "[a w2]" {
				core.Problem("%s: the second run visited %v, want [a w2]: the connection on the default action was not followed", form, ran)
			}
		}
		out = append(out, Scenario{Name: "action default " + form, Bound: 0, Body: body, Check: stdCheck(func() string { return form })})
	}
	// degenerate flows used as nodes: no start node at all, or a start node whose only edge is nil.
	// Whatever flyt makes of them, "success with an empty action" is not an option.
	for _, form := range []string{"NewFlow(nil)", "NewFlow(nil) inside a flow", "NewFlow(nil) retried"} {
		form := form
		body := func() {
			store := flyt.NewSharedStore()
			f := flyt.NewFlow(nil)
			var a flyt.Action
			var err error
			witness := false
			switch form {
			case "NewFlow(nil)":
				a, err = flyt.Run(ctxBackground(), f, store)
			case "NewFlow(nil) retried":
				flyt.WithMaxRetries(2)(f.BaseNode)
				a, err = flyt.Run(ctxBackground(), f, store)
			default:
				w := flyt.NewNode().WithExecFuncAny(func(context.Context, any) (any, error) { witness = true; return nil, nil })
				outer := flyt.NewFlow(f).Connect(f, flyt.DefaultAction, w)
				a, err = flyt.Run(ctxBackground(), outer, store)
				if err == nil && !witness {
					core.Problem("%s: the run succeeded but the connection on the default action was not followed", form)
				}
			}
			core.Logf("%s returned (%q, %v)", form, a, err)
			if (err == nil) == (a == "") {
				core.Problem("%s returned (%q, %v): a successful run reports a non-empty action, a failed one none", form, a, err)
			}
		}
		out = append(out, Scenario{Name: "action degenerate " + form, Bound: 0, Body: body, Check: stdCheck(func() string { return form })})
	}
	return out
}
