package main

// C13, accessor matrix: every read accessor of the store (the typed getters, their Or forms, Bind
// and MustBind included) against every kind of writer, two threads, all interleavings.  The
// oracle is linearizability of the single read (its answer is the one it would give before or
// after the write) plus the happens-before race detector: an accessor that skips the lock is a
// data race even though its sequential answers are right.

import (
	"fmt"
	"sort"
	"strings"

	flyt "github.com/mark3labs/flyt"
	"github.com/mark3labs/flyt/zzvrt/core"
)

type storeReader struct {
	name string
	f    func(s *flyt.SharedStore) string
	key  string // the key whose value decides the answer ("" = any)
}

type bindT struct {
	K int `json:"k"`
}

func storeReaders() []storeReader {
	p := func(v any) string { return sh(v) }
	rs := []storeReader{
		{"Get(i)", func(s *flyt.SharedStore) string { v, ok := s.Get("i"); return fmt.Sprint(p(v), ok) }, "i"},
		{"Has(i)", func(s *flyt.SharedStore) string { return fmt.Sprint(s.Has("i")) }, "i"},
		{"Len", func(s *flyt.SharedStore) string { return fmt.Sprint(s.Len()) }, ""},
		{"Keys", func(s *flyt.SharedStore) string { k := s.Keys(); sort.Strings(k); return strings.Join(k, ",") }, ""},
		{"GetAll", func(s *flyt.SharedStore) string {
			m := s.GetAll()
			var ks []string
			for k, v := range m {
				ks = append(ks, k+"="+p(v))
			}
			sort.Strings(ks)
			return strings.Join(ks, ",")
		}, ""},
		{"GetString(s)", func(s *flyt.SharedStore) string { return s.GetString("s") }, "s"},
		{"GetStringOr(s)", func(s *flyt.SharedStore) string { return s.GetStringOr("s", "dflt") }, "s"},
		{"GetInt(i)", func(s *flyt.SharedStore) string { return fmt.Sprint(s.GetInt("i")) }, "i"},
		{"GetIntOr(i)", func(s *flyt.SharedStore) string { return fmt.Sprint(s.GetIntOr("i", -5)) }, "i"},
		{"GetFloat64(f)", func(s *flyt.SharedStore) string { return fmt.Sprint(s.GetFloat64("f")) }, "f"},
		{"GetFloat64Or(f)", func(s *flyt.SharedStore) string { return fmt.Sprint(s.GetFloat64Or("f", -5.5)) }, "f"},
		{"GetBool(t)", func(s *flyt.SharedStore) string { return fmt.Sprint(s.GetBool("t")) }, "t"},
		{"GetBoolOr(t)", func(s *flyt.SharedStore) string { return fmt.Sprint(s.GetBoolOr("t", false)) }, "t"},
		{"GetSlice(l)", func(s *flyt.SharedStore) string { return p(s.GetSlice("l")) }, "l"},
		{"GetSliceOr(l)", func(s *flyt.SharedStore) string { return p(s.GetSliceOr("l", []any{"dflt"})) }, "l"},
		{"GetMap(m)", func(s *flyt.SharedStore) string { return p(s.GetMap("m")) }, "m"},
		{"GetMapOr(m)", func(s *flyt.SharedStore) string { return p(s.GetMapOr("m", map[string]any{"dflt": 0})) }, "m"},
		{"Bind(m)", func(s *flyt.SharedStore) string {
			var d bindT
			err := s.Bind("m", &d)
			return fmt.Sprint(d.K, err != nil)
		}, "m"},
		{"MustBind(m)", func(s *flyt.SharedStore) (out string) {
			defer func() {
				if r := recover(); r != nil {
					out = "panic"
				}
			}()
			var d bindT
			s.MustBind("m", &d)
			return fmt.Sprint(d.K)
		}, "m"},
	}
	return rs
}

type storeWriter struct {
	name string
	f    func(s *flyt.SharedStore, key string)
}

var matrixOther = map[string]any{"i": 2, "s": "y", "f": 2.5, "t": false, "l": []any{2, 3}, "m": map[string]any{"k": 2}}

func storeWriters() []storeWriter {
	return []storeWriter{
		{"Set(its key)", func(s *flyt.SharedStore, k string) { s.Set(k, matrixOther[k]) }},
		{"Merge({its key})", func(s *flyt.SharedStore, k string) { s.Merge(map[string]any{k: matrixOther[k]}) }},
		{"Delete(its key)", func(s *flyt.SharedStore, k string) { s.Delete(k) }},
		{"Clear", func(s *flyt.SharedStore, k string) { s.Clear() }},
		{"Set(another key)", func(s *flyt.SharedStore, k string) { s.Set("zz", 1) }},
	}
}

func matrixInit() map[string]any {
	return map[string]any{"i": 1, "s": "x", "f": 1.5, "t": true, "l": []any{1}, "m": map[string]any{"k": 1}}
}

func genC13Matrix() []Scenario {
	var out []Scenario
	readers := storeReaders()
	for _, w := range storeWriters() {
		w := w
		var label string
		body := func() {
			r := readers[core.Choose(len(readers))]
			// the read linearizes before or after the write
			allowed := map[string]bool{}
			key := r.key
			if key == "" {
				key = "i"
			}
			{
				ref := flyt.NewSharedStore()
				ref.Merge(matrixInit())
				allowed[r.f(ref)] = true
				w.f(ref, key)
				allowed[r.f(ref)] = true
			}
			store := flyt.NewSharedStore()
			store.Merge(matrixInit())
			var got string
			tw := core.Go("writer", func() { w.f(store, key) })
			tr := core.Go("reader", func() { got = r.f(store) })
			core.Join(tw)
			core.Join(tr)
			label = r.name + " -> " + got
			if !allowed[got] {
				var l []string
				for k := range allowed {
					l = append(l, k)
				}
				sort.Strings(l)
				core.Problem("%s concurrent with %s answered %q, which it gives neither before nor after the write (possible: %q)", r.name, w.name, got, l)
			}
		}
		out = append(out, Scenario{Name: "accessor-matrix every reader vs " + w.name, Bound: unbounded, Body: body, Check: stdCheck(func() string { return label })})
	}
	return out
}
