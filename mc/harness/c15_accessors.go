package main

// C15 typed accessors are total, mutually consistent and faithful: every value
// of a closed type grammar (depth 2) x every accessor family x {plain, Or,
// Must, store Get, store GetOr}, against a reflect-based specification.

import (
	"fmt"
	"math"
	"reflect"
	"strings"
	"time"

	flyt "github.com/mark3labs/flyt"
	"github.com/mark3labs/flyt/zzvrt/core"
)

func init() {
	register(&Property{ID: "C15", Instr: false, Gen: genC15})
}

type (
	myInt    int
	myStr    string
	myBool   bool
	myFloat  float64
	mySlice  []int
	selfSl   []any
	namedAny []any
	myMap    map[string]any
	withSl   struct{ S []int }
	plainSt  struct{ A int }
)

func sameNameStruct() any {
	type item struct{ A int }
	return item{A: 1}
}
func sameNameSlice() any {
	type item []int
	return item{1, 2}
}
func sameNameSlice2() any {
	type elem []string
	return elem{"x"}
}
func sameNameStruct2() any {
	type elem struct{ S string }
	return elem{S: "x"}
}

func baseValues() []any {
	var self selfSl = make(selfSl, 1)
	self[0] = self
	var nilPtr *int
	var nilMap map[string]any
	var nilSl []int
	var nilAny []any
	var nilFn func()
	var nilCh chan int
	one := 1
	vals := []any{
		nil,
		// signed
		int(0), int(1), int(-1), int(math.MinInt), int(math.MaxInt),
		int8(0), int8(-1), int8(math.MinInt8), int8(math.MaxInt8),
		int16(1), int16(math.MinInt16), int16(math.MaxInt16),
		int32(-1), int32(math.MinInt32), int32(math.MaxInt32),
		int64(1), int64(math.MinInt64), int64(math.MaxInt64),
		// unsigned
		uint(0), uint(1), uint(math.MaxUint),
		uint8(1), uint8(math.MaxUint8),
		uint16(1), uint16(math.MaxUint16),
		uint32(1), uint32(math.MaxUint32),
		uint64(1), uint64(math.MaxUint64), uint64(math.MaxInt64) + 1,
		uintptr(7),
		// floats
		float32(0), float32(1.5), float32(-1), float32(math.MaxFloat32), float32(math.Inf(1)), float32(math.NaN()),
		float64(0), float64(1.5), float64(-2.5), math.MaxFloat64, math.SmallestNonzeroFloat64, math.Inf(1), math.Inf(-1), math.NaN(), 1e300, float64(1 << 62),
		complex64(1), complex128(2i),
		// strings, bools
		"", "x", "ü", true, false,
		// named types
		myInt(3), myStr("n"), myBool(true), myFloat(2.5), mySlice{1, 2}, mySlice(nil), namedAny{1, "a"}, myMap{"k": 1},
		// typed nils
		nilPtr, nilMap, nilSl, nilAny, nilFn, nilCh, (*plainSt)(nil), error(nil),
		// pointers, funcs, chans
		&one, &plainSt{A: 1}, func() {}, make(chan int), fmt.Errorf("an error"),
		// structs, arrays
		struct{}{}, plainSt{A: 2}, withSl{S: []int{1}}, withSl{}, [2]int{1, 2}, [0]int{}, [1][]int{{1}},
		// maps
		map[string]any{}, map[string]any{"a": 1, "b": []any{1}}, map[string]int{"a": 1}, map[int]string{1: "a"}, map[string]any{"self": nil},
		// slices
		[]any{}, []any{1}, []any{"a", 2, nil}, []any{[]any{1}}, []int{}, []int{5}, []int{1, 2, 3}, []string{"a"}, []string{"a", "b"}, []float64{1.5, math.NaN()},
		[]map[string]any{{"a": 1}}, [][]int{{1}}, [][]int{{1}, {2, 3}}, []myInt{5}, []bool{true}, []byte("hi"), []error{nil}, []*int{&one}, []func(){func() {}}, []withSl{{S: []int{1}}},
		[]map[string]int{{"a": 1}}, []any{map[string]int{"a": 1}}, []any{math.NaN()}, []float32{float32(math.NaN())}, self, []selfSl{self},
		time.Second, flyt.NewResult(1), flyt.Action("a"),
		// distinct types that print the same name, in both orders (struct first / slice first)
		sameNameStruct(), sameNameSlice(), sameNameSlice2(), sameNameStruct2(),
	}
	return vals
}

// depth-2 constructors applied to every base value
func derivedValues(base []any) []any {
	var out []any
	for _, b := range base {
		if b == nil {
			out = append(out, []any{nil}, []any{nil, nil}, map[string]any{"k": nil})
			continue
		}
		t := reflect.TypeOf(b)
		v := reflect.ValueOf(b)
		p := reflect.New(t)
		p.Elem().Set(v)
		out = append(out, p.Interface())
		s1 := reflect.MakeSlice(reflect.SliceOf(t), 1, 1)
		s1.Index(0).Set(v)
		out = append(out, s1.Interface())
		s2 := reflect.MakeSlice(reflect.SliceOf(t), 2, 2)
		s2.Index(0).Set(v)
		s2.Index(1).Set(v)
		out = append(out, s2.Interface())
		out = append(out, []any{b}, []any{b, b})
		a := reflect.New(reflect.ArrayOf(1, t)).Elem()
		a.Index(0).Set(v)
		out = append(out, a.Interface())
		m := reflect.MakeMap(reflect.MapOf(reflect.TypeOf(""), t))
		m.SetMapIndex(reflect.ValueOf("k"), v)
		out = append(out, m.Interface())
		out = append(out, map[string]any{"k": b})
		st := reflect.New(reflect.StructOf([]reflect.StructField{{Name: "F", Type: t}})).Elem()
		st.Field(0).Set(v)
		out = append(out, st.Interface())
	}
	return out
}

func describe(v any) string {
	if v == nil {
		return "nil"
	}
	return fmt.Sprintf("%T(%s)", v, short(reflect.ValueOf(v), 3))
}

// short prints a value to a bounded depth (cyclic values must not recurse forever).
func short(v reflect.Value, depth int) string {
	if !v.IsValid() {
		return "nil"
	}
	if depth == 0 {
		return "…"
	}
	switch v.Kind() {
	case reflect.Interface, reflect.Ptr:
		if v.IsNil() {
			return "nil"
		}
		return "&" + short(v.Elem(), depth-1)
	case reflect.Slice, reflect.Array:
		if v.Kind() == reflect.Slice && v.IsNil() {
			return "nil-slice"
		}
		var parts []string
		for i := 0; i < v.Len() && i < 4; i++ {
			parts = append(parts, short(v.Index(i), depth-1))
		}
		return "[" + strings.Join(parts, " ") + "]"
	case reflect.Map:
		if v.IsNil() {
			return "nil-map"
		}
		return fmt.Sprintf("map(len %d)", v.Len())
	case reflect.Struct:
		var parts []string
		for i := 0; i < v.NumField() && i < 3; i++ {
			parts = append(parts, short(v.Field(i), depth-1))
		}
		return "{" + strings.Join(parts, " ") + "}"
	case reflect.Func, reflect.Chan:
		if v.IsNil() {
			return "nil"
		}
		return v.Kind().String()
	case reflect.Bool:
		return fmt.Sprint(v.Bool())
	case reflect.String:
		return fmt.Sprintf("%q", v.String())
	case reflect.Int, reflect.Int8, reflect.Int16, reflect.Int32, reflect.Int64:
		return fmt.Sprint(v.Int())
	case reflect.Uint, reflect.Uint8, reflect.Uint16, reflect.Uint32, reflect.Uint64, reflect.Uintptr:
		return fmt.Sprint(v.Uint())
	case reflect.Float32, reflect.Float64:
		return fmt.Sprint(v.Float())
	case reflect.Complex64, reflect.Complex128:
		return fmt.Sprint(v.Complex())
	}
	return v.Kind().String()
}

func sh(v any) string { return short(reflect.ValueOf(v), 3) }

func try(f func()) (panicked bool, val any) {
	defer func() {
		if r := recover(); r != nil {
			panicked, val = true, r
		}
	}()
	f()
	return
}

func eqScalar(a, b any) bool {
	if fa, ok := a.(float64); ok {
		fb, ok2 := b.(float64)
		return ok2 && (fa == fb || (math.IsNaN(fa) && math.IsNaN(fb)))
	}
	return reflect.DeepEqual(a, b)
}

func eqElem(a, b any) bool {
	if a == nil || b == nil {
		return a == nil && b == nil
	}
	if reflect.TypeOf(a) != reflect.TypeOf(b) {
		return false
	}
	return eqRV(reflect.ValueOf(a), reflect.ValueOf(b), 6)
}

// eqRV: "the same element": identity for reference kinds, value equality
// otherwise, with NaN equal to NaN (an element copied out of a slice is the
// same element even if it is a NaN).
func eqRV(a, b reflect.Value, depth int) bool {
	if depth == 0 {
		return true
	}
	switch a.Kind() {
	case reflect.Ptr, reflect.Map, reflect.Func, reflect.Chan, reflect.UnsafePointer:
		return a.Pointer() == b.Pointer()
	case reflect.Slice:
		return a.Pointer() == b.Pointer() && a.Len() == b.Len()
	case reflect.Float32, reflect.Float64:
		x, y := a.Float(), b.Float()
		return x == y || (x != x && y != y)
	case reflect.Complex64, reflect.Complex128:
		return fmt.Sprint(a.Complex()) == fmt.Sprint(b.Complex())
	case reflect.Interface:
		if a.IsNil() || b.IsNil() {
			return a.IsNil() && b.IsNil()
		}
		return a.Elem().Type() == b.Elem().Type() && eqRV(a.Elem(), b.Elem(), depth-1)
	case reflect.Struct:
		for i := 0; i < a.NumField(); i++ {
			if !eqRV(a.Field(i), b.Field(i), depth-1) {
				return false
			}
		}
		return true
	case reflect.Array:
		for i := 0; i < a.Len(); i++ {
			if !eqRV(a.Index(i), b.Index(i), depth-1) {
				return false
			}
		}
		return true
	case reflect.Bool:
		return a.Bool() == b.Bool()
	case reflect.String:
		return a.String() == b.String()
	case reflect.Int, reflect.Int8, reflect.Int16, reflect.Int32, reflect.Int64:
		return a.Int() == b.Int()
	case reflect.Uint, reflect.Uint8, reflect.Uint16, reflect.Uint32, reflect.Uint64, reflect.Uintptr:
		return a.Uint() == b.Uint()
	}
	return true
}

func eqSlices(a, b []any) bool {
	if len(a) != len(b) {
		return false
	}
	for i := range a {
		if !eqElem(a[i], b[i]) {
			return false
		}
	}
	return true
}

// numeric spec: the 12 documented source types
func specNumeric(v any) (i int, f float64, ok bool) {
	switch x := v.(type) {
	case int:
		return x, float64(x), true
	case int8:
		return int(x), float64(x), true
	case int16:
		return int(x), float64(x), true
	case int32:
		return int(x), float64(x), true
	case int64:
		return int(x), float64(x), true
	case uint:
		return int(x), float64(x), true
	case uint8:
		return int(x), float64(x), true
	case uint16:
		return int(x), float64(x), true
	case uint32:
		return int(x), float64(x), true
	case uint64:
		return int(x), float64(x), true
	case float32:
		return int(x), float64(x), true
	case float64:
		return int(x), x, true
	}
	return 0, 0, false
}

// specToSlice: nil -> empty, slice -> its elements in order, anything else -> [v]
func specToSlice(v any) []any {
	if v == nil {
		return []any{}
	}
	rv := reflect.ValueOf(v)
	if rv.Kind() == reflect.Slice {
		out := make([]any, rv.Len())
		for i := range out {
			out[i] = rv.Index(i).Interface()
		}
		return out
	}
	return []any{v}
}

type family struct {
	name string
	// spec returns (want, ok)
	spec  func(v any) (any, bool)
	as    func(r flyt.Result) (any, bool)
	or    func(r flyt.Result, def any) any
	must  func(r flyt.Result) any
	get   func(s *flyt.SharedStore, k string) any
	getOr func(s *flyt.SharedStore, k string, def any) any
	zero  any
	def   any
	eq    func(a, b any) bool
}

var families = []family{
	{name: "String",
		spec:  func(v any) (any, bool) { s, ok := v.(string); return s, ok },
		as:    func(r flyt.Result) (any, bool) { return r.AsString() },
		or:    func(r flyt.Result, d any) any { return r.AsStringOr(d.(string)) },
		must:  func(r flyt.Result) any { return r.MustString() },
		get:   func(s *flyt.SharedStore, k string) any { return s.GetString(k) },
		getOr: func(s *flyt.SharedStore, k string, d any) any { return s.GetStringOr(k, d.(string)) },
		zero:  "", def: "DEF", eq: eqScalar},
	{name: "Int",
		spec:  func(v any) (any, bool) { i, _, ok := specNumeric(v); return i, ok },
		as:    func(r flyt.Result) (any, bool) { return r.AsInt() },
		or:    func(r flyt.Result, d any) any { return r.AsIntOr(d.(int)) },
		must:  func(r flyt.Result) any { return r.MustInt() },
		get:   func(s *flyt.SharedStore, k string) any { return s.GetInt(k) },
		getOr: func(s *flyt.SharedStore, k string, d any) any { return s.GetIntOr(k, d.(int)) },
		zero:  0, def: -777, eq: eqScalar},
	{name: "Float64",
		spec:  func(v any) (any, bool) { _, f, ok := specNumeric(v); return f, ok },
		as:    func(r flyt.Result) (any, bool) { return r.AsFloat64() },
		or:    func(r flyt.Result, d any) any { return r.AsFloat64Or(d.(float64)) },
		must:  func(r flyt.Result) any { return r.MustFloat64() },
		get:   func(s *flyt.SharedStore, k string) any { return s.GetFloat64(k) },
		getOr: func(s *flyt.SharedStore, k string, d any) any { return s.GetFloat64Or(k, d.(float64)) },
		zero:  0.0, def: -777.5, eq: eqScalar},
	{name: "Bool",
		spec:  func(v any) (any, bool) { b, ok := v.(bool); return b, ok },
		as:    func(r flyt.Result) (any, bool) { return r.AsBool() },
		or:    func(r flyt.Result, d any) any { return r.AsBoolOr(d.(bool)) },
		must:  func(r flyt.Result) any { return r.MustBool() },
		get:   func(s *flyt.SharedStore, k string) any { return s.GetBool(k) },
		getOr: func(s *flyt.SharedStore, k string, d any) any { return s.GetBoolOr(k, d.(bool)) },
		zero:  false, def: true, eq: eqScalar},
	{name: "Map",
		spec:  func(v any) (any, bool) { m, ok := v.(map[string]any); return m, ok },
		as:    func(r flyt.Result) (any, bool) { return r.AsMap() },
		or:    func(r flyt.Result, d any) any { return r.AsMapOr(d.(map[string]any)) },
		must:  func(r flyt.Result) any { return r.MustMap() },
		get:   func(s *flyt.SharedStore, k string) any { return s.GetMap(k) },
		getOr: func(s *flyt.SharedStore, k string, d any) any { return s.GetMapOr(k, d.(map[string]any)) },
		zero:  map[string]any(nil), def: map[string]any{"DEF": 1},
		eq: func(a, b any) bool {
			return reflect.ValueOf(a).Pointer() == reflect.ValueOf(b).Pointer()
		}},
	{name: "Slice",
		spec: func(v any) (any, bool) {
			if v == nil || reflect.TypeOf(v).Kind() != reflect.Slice {
				return []any(nil), false
			}
			return specToSlice(v), true
		},
		as:    func(r flyt.Result) (any, bool) { return r.AsSlice() },
		or:    func(r flyt.Result, d any) any { return r.AsSliceOr(d.([]any)) },
		must:  func(r flyt.Result) any { return r.MustSlice() },
		get:   func(s *flyt.SharedStore, k string) any { return s.GetSlice(k) },
		getOr: func(s *flyt.SharedStore, k string, d any) any { return s.GetSliceOr(k, d.([]any)) },
		zero:  []any(nil), def: []any{"DEF"},
		eq: func(a, b any) bool { return eqSlices(a.([]any), b.([]any)) }},
}

// checkValueFamily returns the complaints for one (value, family) pair.
func checkValueFamily(v any, f *family) []string {
	var pr []string
	bad := func(format string, a ...any) {
		pr = append(pr, fmt.Sprintf("%s of %s: ", f.name, describe(v))+fmt.Sprintf(format, a...))
	}
	want, wantOK := f.spec(v)
	r := flyt.NewResult(v)
	var got any
	var ok bool
	if p, pv := try(func() { got, ok = f.as(r) }); p {
		bad("As%s panicked: %v", f.name, pv)
		return pr
	}
	if ok != wantOK {
		bad("As%s ok=%v, specification says %v", f.name, ok, wantOK)
	} else if ok && !f.eq(got, want) {
		bad("As%s = %s, want %s", f.name, sh(got), sh(want))
	} else if !ok && !f.eq(got, f.zero) {
		bad("As%s returned %s with ok=false, want the zero value", f.name, sh(got))
	}
	// Or-default
	var gotOr any
	if p, pv := try(func() { gotOr = f.or(r, f.def) }); p {
		bad("As%sOr panicked: %v", f.name, pv)
	} else if ok && !f.eq(gotOr, got) {
		bad("As%sOr = %s but As%s = %s", f.name, sh(gotOr), f.name, sh(got))
	} else if !ok && !f.eq(gotOr, f.def) {
		bad("As%sOr = %s, want the default (As%s failed)", f.name, sh(gotOr), f.name)
	}
	// Must
	var gotMust any
	p, _ := try(func() { gotMust = f.must(r) })
	if p == ok {
		bad("Must%s panicked=%v but As%s ok=%v", f.name, p, f.name, ok)
	} else if ok && !f.eq(gotMust, got) {
		bad("Must%s = %s but As%s = %s", f.name, sh(gotMust), f.name, sh(got))
	}
	// store getters on the same value — reached through different histories of the key: the
	// getter is a view of the CURRENT value, whatever was stored (and read) there before
	histories := []struct {
		name string
		put  func(st *flyt.SharedStore)
	}{
		{"fresh Set", func(st *flyt.SharedStore) { st.Set("k", v) }},
		{"Set(other); read; Merge", func(st *flyt.SharedStore) {
			st.Set("k", primeValue(f.name))
			f.get(st, "k")
			f.getOr(st, "k", f.def)
			st.Merge(map[string]any{"k": v})
		}},
		{"Set(other); read; Clear; Merge", func(st *flyt.SharedStore) {
			st.Set("k", primeValue(f.name))
			f.get(st, "k")
			st.Clear()
			st.Merge(map[string]any{"k": v, "other": 1})
		}},
		{"Set(other); read; Delete; Set", func(st *flyt.SharedStore) {
			st.Set("k", primeValue(f.name))
			f.get(st, "k")
			st.Delete("k")
			st.Set("k", v)
		}},
		{"Set(other); read x3; Delete; Set", func(st *flyt.SharedStore) {
			st.Set("k", primeValue(f.name))
			f.get(st, "k")
			f.get(st, "k")
			f.getOr(st, "k", f.def)
			st.Delete("k")
			st.Set("k", v)
		}},
		{"Set(other); read x3; Set(other); read x2; Clear; Set", func(st *flyt.SharedStore) {
			st.Set("k", primeValue(f.name))
			f.get(st, "k")
			f.get(st, "k")
			f.get(st, "k")
			st.Set("k", primeValue(f.name))
			f.get(st, "k")
			f.get(st, "k")
			st.Clear()
			st.Set("k", v)
		}},
	}
	var gMissing any
	for _, hist := range histories {
		st := flyt.NewSharedStore()
		var g, gOr any
		if p, pv := try(func() {
			hist.put(st)
			g = f.get(st, "k")
			gOr = f.getOr(st, "k", f.def)
			gMissing = f.getOr(st, "absent", f.def)
		}); p {
			bad("store Get%s panicked (%s): %v", f.name, hist.name, pv)
			return pr
		}
		if ok {
			if !f.eq(g, got) {
				bad("store Get%s (%s) = %s, result accessor gives %s", f.name, hist.name, sh(g), sh(got))
			}
			if !f.eq(gOr, got) {
				bad("store Get%sOr (%s) = %s, result accessor gives %s", f.name, hist.name, sh(gOr), sh(got))
			}
		} else {
			if !f.eq(g, f.zero) {
				bad("store Get%s (%s) = %s, want the zero value (result accessor fails)", f.name, hist.name, sh(g))
			}
			if !f.eq(gOr, f.def) {
				bad("store Get%sOr (%s) = %s, want the default (result accessor fails)", f.name, hist.name, sh(gOr))
			}
		}
	}
	if !f.eq(gMissing, f.def) {
		bad("store Get%sOr on a missing key = %s, want the default", f.name, sh(gMissing))
	}
	return pr
}

// primeValue: a value of the family's "successful" kind, stored (and read) under the key before
// the value under test replaces it.
func primeValue(family string) any {
	switch family {
	case "String":
		return "primed"
	case "Int":
		return 4242
	case "Float64":
		return 42.5
	case "Bool":
		return true
	case "Map":
		return map[string]any{"primed": 1}
	}
	return []string{"primed", "slice"}
}

func checkToSlice(v any) []string {
	var pr []string
	var got []any
	if p, pv := try(func() { got = flyt.ToSlice(v) }); p {
		return []string{fmt.Sprintf("ToSlice of %s panicked: %v", describe(v), pv)}
	}
	if got == nil && v == nil {
		pr = append(pr, "ToSlice(nil) returned a nil slice, want an empty one")
	}
	if want := specToSlice(v); !eqSlices(got, want) {
		pr = append(pr, fmt.Sprintf("ToSlice of %s = %d elements %s, want %d elements", describe(v), len(got), sh(got), len(want)))
	}
	return pr
}

func checkGenericAs(v any) []string {
	var pr []string
	r := flyt.NewResult(v)
	// the shorthand constructor is the same constructor
	if p, pv := try(func() {
		if r2 := flyt.R(v); r2.IsError() != r.IsError() || !eqElem(r2.Value(), r.Value()) {
			pr = append(pr, fmt.Sprintf("R(%s) differs from NewResult of the same value: %s vs %s", describe(v), sh(r2.Value()), sh(r.Value())))
		}
	}); p {
		pr = append(pr, fmt.Sprintf("R(%s) panicked: %v", describe(v), pv))
	}
	if p, pv := try(func() {
		_, ok := flyt.As[int](r)
		_, isInt := v.(int)
		if ok != isInt {
			pr = append(pr, fmt.Sprintf("As[int] of %s ok=%v", describe(v), ok))
		}
		_, ok2 := flyt.As[any](r)
		if ok2 != (v != nil) {
			pr = append(pr, fmt.Sprintf("As[any] of %s ok=%v", describe(v), ok2))
		}
		_ = r.IsNil()
		_ = r.Type()
		_ = r.Value()
		_ = r.IsError()
	}); p {
		pr = append(pr, fmt.Sprintf("generic accessor of %s panicked: %v", describe(v), pv))
	}
	mp, _ := try(func() { flyt.MustAs[string](r) })
	_, isStr := v.(string)
	if mp == isStr {
		pr = append(pr, fmt.Sprintf("MustAs[string] of %s panicked=%v", describe(v), mp))
	}
	return pr
}

func genC15(tier string) []Scenario {
	base := baseValues()
	vals := append(append([]any(nil), base...), derivedValues(base)...)
	if tier == "thorough" {
		vals = append(vals, derivedValues(derivedValues(base))...) // depth 3, complete
	}
	var out []Scenario
	// process-wide state (caches keyed by something coarser than the type): distinct types that
	// print the same name are checked one after the other IN ONE PROCESS, in both orders
	out = append(out, Scenario{Name: "accessors same-named distinct types in one process", Direct: func(deadline time.Time) *core.Stats {
		st := &core.Stats{ByCost: map[int]int64{}, Outcomes: map[string]int64{}}
		for round := 0; round < 2; round++ {
			for _, v := range []any{sameNameStruct(), sameNameSlice(), sameNameSlice2(), sameNameStruct2(), myStr("n"), "n", mySlice{1}, []int{1}} {
				var pr []string
				for fi := range families {
					pr = append(pr, checkValueFamily(v, &families[fi])...)
					st.Executions++
				}
				pr = append(pr, checkToSlice(v)...)
				st.Outcomes[fmt.Sprintf("%T/%d", v, round)]++
				if len(pr) > 0 && len(st.Violations) < 10 {
					st.Violations = append(st.Violations, core.Violation{Msgs: pr, Log: []string{"value: " + describe(v)}})
				}
			}
		}
		st.TreeNodes, st.Transitions = 16, st.Executions*9
		st.ByCost[0] = st.Executions
		st.SampleLog = []string{"struct `item` then slice `item` (same printed name), slice `elem` then struct `elem`, twice"}
		return st
	}})
	// the caller CHANGES a stored slice or map in place between two reads (same backing array, same
	// length; or refills a re-used buffer and sets it again): every read is a view of what the value
	// holds now — equal to the result accessor applied to the current value
	out = append(out, Scenario{Name: "accessors stored value changed in place between reads", Direct: func(deadline time.Time) *core.Stats {
		st := &core.Stats{ByCost: map[int]int64{}, Outcomes: map[string]int64{}}
		type mutable struct {
			name   string
			fresh  func() any
			mutate func(v any) any // changes v in place; returns the value to Set again (nil: no re-Set)
		}
		muts := []mutable{
			{"[]int element overwritten", func() any { return []int{1, 2, 3} }, func(v any) any { v.([]int)[0] = 9; return nil }},
			{"[]string element overwritten", func() any { return []string{"a", "b"} }, func(v any) any { v.([]string)[1] = "z"; return nil }},
			{"[]any element overwritten", func() any { return []any{1, "x"} }, func(v any) any { v.([]any)[0] = 2.5; return nil }},
			{"[]float64 buffer refilled and set again", func() any { return []float64{1, 2} }, func(v any) any { b := v.([]float64); b = append(b[:0], 7, 8); return b }},
			{"[]int buffer refilled and set again", func() any { return []int{1, 2, 3} }, func(v any) any { b := v.([]int); b = append(b[:0], 4, 5, 6); return b }},
			{"map[string]any value overwritten", func() any { return map[string]any{"a": 1} }, func(v any) any { v.(map[string]any)["a"] = 2; return nil }},
			{"map[string]any key swapped", func() any { return map[string]any{"a": 1} }, func(v any) any {
				m := v.(map[string]any)
				delete(m, "a")
				m["b"] = 1
				return nil
			}},
		}
		for _, mu := range muts {
			for fi := range families {
				f := &families[fi]
				for reads := 1; reads <= 3; reads++ {
					store := flyt.NewSharedStore()
					v := mu.fresh()
					store.Set("k", v)
					for i := 0; i < reads; i++ {
						f.get(store, "k")
						f.getOr(store, "k", f.def)
					}
					if again := mu.mutate(v); again != nil {
						store.Set("k", again)
						v = again
					}
					want, ok := f.as(flyt.NewResult(v))
					g, gOr := f.get(store, "k"), f.getOr(store, "k", f.def)
					var pr []string
					if ok && (!f.eq(g, want) || !f.eq(gOr, want)) {
						pr = append(pr, fmt.Sprintf("%s, after %d read(s): store Get%s = %s / Get%sOr = %s, the result accessor on the current value gives %s", mu.name, reads, f.name, sh(g), f.name, sh(gOr), sh(want)))
					}
					if !ok && (!f.eq(g, f.zero) || !f.eq(gOr, f.def)) {
						pr = append(pr, fmt.Sprintf("%s, after %d read(s): store Get%s = %s / Get%sOr = %s, want zero value / default", mu.name, reads, f.name, sh(g), f.name, sh(gOr)))
					}
					if len(pr) > 0 && len(st.Violations) < 10 {
						st.Violations = append(st.Violations, core.Violation{Msgs: pr, Log: pr})
					}
					st.Executions++
					st.Transitions += int64(2*reads + 4)
					st.Outcomes[fmt.Sprintf("%s/%s/%v", mu.name, f.name, ok)]++
				}
			}
		}
		st.TreeNodes = int64(len(muts))
		st.ByCost[0] = st.Executions
		st.SampleLog = []string{"Set(k, a); GetSlice(k); a[0] = 9; GetSlice(k) gives [9 2 3]"}
		return st
	}})
	const chunks = 16
	for c := 0; c < chunks; c++ {
		c := c
		out = append(out, Scenario{Name: fmt.Sprintf("accessors values[%d mod %d] of %d", c, chunks, len(vals)), Direct: func(deadline time.Time) *core.Stats {
			st := &core.Stats{ByCost: map[int]int64{}, Outcomes: map[string]int64{}}
			for i := c; i < len(vals); i += chunks {
				v := vals[i]
				var pr []string
				for fi := range families {
					p := checkValueFamily(v, &families[fi])
					pr = append(pr, p...)
					st.Executions++
					tag := families[fi].name + ":fail"
					if _, ok := families[fi].spec(v); ok {
						tag = families[fi].name + ":ok"
					}
					st.Outcomes[tag+":"+fmt.Sprintf("%T", v)]++
				}
				pr = append(pr, checkToSlice(v)...)
				pr = append(pr, checkGenericAs(v)...)
				st.Executions += 2
				st.Transitions += int64(len(families)*9 + 6)
				st.TreeNodes++
				if len(pr) > 0 && len(st.Violations) < 10 {
					st.Violations = append(st.Violations, core.Violation{Msgs: pr, Log: []string{"value: " + describe(v)}})
				}
				if st.SampleLog == nil && i > 40 {
					st.SampleLog = []string{"value " + describe(v) + " x families String/Int/Float64/Bool/Map/Slice x {As, AsOr, Must, store Get, store GetOr}, ToSlice, As[T]"}
				}
			}
			st.ByCost[0] = st.Executions
			return st
		}})
	}
	return out
}
