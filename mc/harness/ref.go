package main

// ref.go: the boring reference model of node/flow execution and the scripted
// node kinds that drive the real framework.
//
// The reference is a pure interpreter `simulate(root, answers)`: it replays
// the documented lifecycle (prep -> exec x N -> fallback -> post; flows follow
// their transition table) consuming the callbacks' answers in order.  When the
// answers run out it reports which callback it expects next.  The real run is
// checked ONLINE: at every callback the framework makes, the reference (fed
// with the answers given so far) must expect exactly that callback with
// exactly those arguments; at the end the reference must be finished and
// agree on the outcome.

import (
	"context"
	"errors"
	"fmt"
	"iter"
	"reflect"
	"sort"
	"strings"
	"time"

	flyt "github.com/mark3labs/flyt"
	"github.com/mark3labs/flyt/zzvrt/core"
)

type ctxT = context.Context

func ctxBackground() context.Context { return context.Background() }

type phase int

const (
	pPrep phase = iota
	pExec
	pFallback
	pPost
)

func (p phase) String() string { return [...]string{"prep", "exec", "fallback", "post"}[p] }

// node kinds
const (
	kBase         = iota // K1 struct embedding *BaseNode overriding Prep/Exec/Post
	kBaseFb              // K2 = K1 + own ExecFallback
	kBare                // K3 bare Node implementation: no retry settings, no fallback
	kBareRetry           // K4 bare + own GetMaxRetries/GetWait
	kBareFb              // K5 bare + own ExecFallback
	kFuncR               // K6 NewNode(options...) Result-style functions
	kFuncA               // K7 NewNode(options...) Any-style functions
	kFuncRB              // K6 via builder methods
	kFuncAB              // K7 via builder methods
	kFuncMix             // Result-style prep/post, Any-style exec, via builder
	kEmbedBuilder        // user struct embedding *NodeBuilder and overriding Prep (calls the embedded Prep, then decorates the value)
	kBaseZero            // K1 on a BaseNode that did not come from NewBaseNode: &flyt.BaseNode{} with the options applied to it
	numKinds
)

var kindNames = [...]string{"BaseEmbed", "BaseEmbed+Fallback", "Bare", "Bare+Retry", "Bare+Fallback", "FuncResult(opts)", "FuncAny(opts)", "FuncResult(builder)", "FuncAny(builder)", "FuncMixed(builder)", "Embed(NodeBuilder)+PrepOverride", "BaseEmbed(zero-value BaseNode)"}

func kindExposesRetry(k int) bool { return k != kBare && k != kBareFb }
func kindCanFallback(k int) bool {
	return k != kBase && k != kBare && k != kBareRetry && k != kBaseZero
}
func kindIsFunc(k int) bool { return k >= kFuncR && k != kBaseZero }

// spec describes a node or a flow of the scenario.
type spec struct {
	id   string
	kind int
	n    int           // configured retry budget
	fb   bool          // a user fallback is configured
	wait time.Duration // configured retry wait
	flow *flowSpec
	// replaced: every callback of a function-style node is first set to a decoy of the OTHER
	// style and then replaced by the real one (the last setting of a phase wins)
	replaced bool
	// exitAs (flow specs): the flow is wrapped in a user type that embeds *flyt.Flow and overrides
	// Post to finish with this fixed action — as a node of another flow it is routed on THAT action
	exitAs flyt.Action
}

// wrapFlow: a user node type embedding *flyt.Flow (Prep and Exec are the flow's own) whose Post
// gives the sub-flow a fixed exit action.
type wrapFlow struct {
	*flyt.Flow
	exit flyt.Action
}

func (w *wrapFlow) Post(ctx context.Context, shared *flyt.SharedStore, prepResult, execResult any) (flyt.Action, error) {
	if _, err := w.Flow.Post(ctx, shared, prepResult, execResult); err != nil {
		return "", err
	}
	return w.exit, nil
}

type flowSpec struct {
	start *spec
	edges map[*spec]map[flyt.Action]*spec // present key with nil value = connected to nil
	edits []edgeEdit                      // Connect calls made DURING the current run (from inside callbacks)
}

// edgeEdit: a re-connection that takes effect once `at` answers of the run have been consumed.
type edgeEdit struct {
	at     int
	from   *spec
	action flyt.Action
	to     *spec
}

// lookup: the edge for (cur, a) as the flow sees it after `pos` answers.
func (f *flowSpec) lookup(cur *spec, a flyt.Action, pos int) (*spec, bool) {
	nx, ok := f.edges[cur][a]
	for _, e := range f.edits {
		if e.at <= pos && e.from == cur && e.action == a {
			nx, ok = e.to, true
		}
	}
	return nx, ok
}

// foldEdits makes the re-connections of the finished run part of the table.
func (f *flowSpec) foldEdits() {
	for _, e := range f.edits {
		if f.edges[e.from] == nil {
			f.edges[e.from] = map[flyt.Action]*spec{}
		}
		f.edges[e.from][e.action] = e.to
	}
	f.edits = nil
}

func (s *spec) attempts() int {
	if s.flow != nil {
		// a Flow embeds *BaseNode: retries configured on the flow itself re-run the whole flow
		if s.n > 1 {
			return s.n
		}
		return 1
	}
	if kindExposesRetry(s.kind) && s.n > 1 {
		return s.n
	}
	return 1 // also for budgets below 1: post must never run without an exec result (C01)
}

func (s *spec) hasFallback() bool {
	if s.flow != nil {
		return false
	}
	if s.kind == kBaseFb || s.kind == kBareFb {
		return true // the fallback method is part of the type
	}
	return s.fb && kindCanFallback(s.kind)
}

type answer struct {
	val    any
	err    error
	action flyt.Action
}

// call is one user-callback invocation, expected or observed.
type call struct {
	node    *spec
	visit   int // how many times this node has been started before (per run)
	ph      phase
	attempt int
	// arguments
	store   *flyt.SharedStore
	prepVal any
	execVal any
	err     error
	ctx     context.Context
}

func (c call) String() string {
	if c.node == nil {
		return "<none>"
	}
	s := fmt.Sprintf("%s#%d.%s", c.node.id, c.visit, c.ph)
	if c.ph == pExec {
		s += fmt.Sprintf("[%d]", c.attempt)
	}
	return s
}

type outcome struct {
	done   bool
	action flyt.Action
	err    error // the user error that ended the run (nil = success)
}

type stuck struct{}

// refRun is the reference interpreter run as a coroutine: it stops at every callback it expects
// and continues when it is fed that callback's answer (no re-simulation from scratch).
type refRun struct {
	next    func() (call, bool)
	stop    func()
	expect  call
	waiting bool // expect is valid: the reference waits for this callback's answer
	over    bool
	out     outcome
	feedAns answer
}

type refStop struct{}

func startRef(root *spec, store *flyt.SharedStore) *refRun {
	r := &refRun{}
	seq := func(yield func(call) bool) {
		s := &sim{visits: map[*spec]int{}, store: store}
		s.askFn = func(c call) answer {
			if !yield(c) {
				panic(refStop{})
			}
			s.pos++
			return r.feedAns
		}
		defer func() {
			if x := recover(); x != nil {
				if _, ok := x.(refStop); !ok {
					panic(x)
				}
			}
		}()
		a, e := s.run(root)
		r.out = outcome{done: true, action: a, err: e}
	}
	r.next, r.stop = iter.Pull(seq)
	r.advance()
	return r
}

func (r *refRun) advance() {
	c, ok := r.next()
	if !ok {
		r.waiting, r.over = false, true
		return
	}
	r.expect, r.waiting = c, true
}

// feed hands the reference the answer of the callback it was waiting for.
func (r *refRun) feed(a answer) {
	if r.over {
		return
	}
	r.feedAns = a
	r.advance()
}

type sim struct {
	askFn   func(c call) answer
	answers []answer
	pos     int
	trace   []call
	visits  map[*spec]int
	store   *flyt.SharedStore
	next    call // valid when stuck
}

func (s *sim) ask(c call) answer {
	if s.askFn != nil {
		return s.askFn(c)
	}
	if s.pos >= len(s.answers) {
		s.next = c
		panic(stuck{})
	}
	a := s.answers[s.pos]
	s.pos++
	return a
}

// simulate runs the reference.  If the answers suffice it returns the final
// outcome; otherwise ok=false and sim.next is the callback expected next.
func simulate(root *spec, store *flyt.SharedStore, answers []answer) (s *sim, out outcome, ok bool) {
	s = &sim{answers: answers, visits: map[*spec]int{}, store: store}
	defer func() {
		if r := recover(); r != nil {
			if _, is := r.(stuck); is {
				ok = false
				return
			}
			panic(r)
		}
	}()
	a, e := s.run(root)
	return s, outcome{done: true, action: a, err: e}, true
}

func (s *sim) run(n *spec) (flyt.Action, error) {
	if n.flow != nil {
		var a flyt.Action
		var err error
		for k := 0; k < n.attempts(); k++ {
			if a, err = s.runFlow(n); err == nil {
				break
			}
		}
		return a, err
	}
	v := s.visits[n]
	s.visits[n]++
	p := s.ask(call{node: n, visit: v, ph: pPrep, store: s.store})
	if p.err != nil {
		return "", p.err
	}
	var res any
	var lastErr error
	for k := 0; k < n.attempts(); k++ {
		a := s.ask(call{node: n, visit: v, ph: pExec, attempt: k, prepVal: p.val})
		if a.err == nil {
			res, lastErr = a.val, nil
			break
		}
		lastErr = a.err
	}
	if lastErr != nil {
		if !n.hasFallback() {
			return "", lastErr
		}
		f := s.ask(call{node: n, visit: v, ph: pFallback, prepVal: p.val, err: lastErr})
		if f.err != nil {
			return "", f.err
		}
		res = f.val
	}
	q := s.ask(call{node: n, visit: v, ph: pPost, store: s.store, prepVal: p.val, execVal: res})
	if q.err != nil {
		return "", q.err
	}
	if q.action == "" {
		return flyt.DefaultAction, nil
	}
	return q.action, nil
}

func (s *sim) runFlow(f *spec) (flyt.Action, error) {
	cur := f.flow.start
	var last flyt.Action
	for cur != nil {
		a, err := s.run(cur)
		if err != nil {
			return "", err
		}
		last = a
		nx, ok := f.flow.lookup(cur, a, s.pos)
		if !ok {
			break
		}
		cur = nx
	}
	// Flow.Post: the action of the last node; normalised like any node
	if last == "" {
		last = flyt.DefaultAction
	}
	if f.exitAs != "" {
		last = f.exitAs // a wrapper's own Post has the last word
	}
	return last, nil
}

// ---------------------------------------------------------------- values

type payloadT struct{ tag string }

func sameValue(a, b any) bool {
	if a == nil || b == nil {
		return a == nil && b == nil
	}
	va, vb := reflect.ValueOf(a), reflect.ValueOf(b)
	if va.Type() != vb.Type() {
		return false
	}
	switch va.Kind() {
	case reflect.Ptr, reflect.Map, reflect.Func, reflect.Chan, reflect.UnsafePointer:
		return va.Pointer() == vb.Pointer()
	case reflect.Slice:
		return va.Pointer() == vb.Pointer() && va.Len() == vb.Len()
	}
	return reflect.DeepEqual(a, b)
}

func descVal(v any) string {
	if v == nil {
		return "nil"
	}
	return fmt.Sprintf("%T(%v)", v, v)
}

// ---------------------------------------------------------------- driver

// H is the per-execution harness state of a sequential (single-threaded)
// node/flow scenario.
type H struct {
	root           *spec
	store          *flyt.SharedStore
	ctx            context.Context
	answers        []answer
	calls          []call
	menu           func(h *H, c call) []answer    // answers offered for this callback (index 0 = default)
	onCall         func(h *H, c call)             // extra hook (cancellation injection etc.)
	preCall        func(h *H, c call)             // runs before the reference comparison
	allowDeviation func(h *H, exp, got call) bool // a callback that differs from the reference but is permitted: stop comparing
	nodes          map[*spec]flyt.Node
	cbGen          [3]int   // generation of the prep / exec / post callback currently installed on the replaced-kind node
	reinstall      func()   // re-sets the callbacks of the (single) replaced-kind node between runs
	cancelFail     error    // the error of the callback that cancelled the context and failed (errCancelThenFail)
	topDown        bool     // wiring order of nested flows (see build)
	buildDepth     int      // nesting of flow builds in progress
	deferredWiring []func() // connections of inner flows still to be made (top-down wiring)
	visits         map[*spec]int
	diverged       bool // the run legitimately left the uncancelled reference (after a cancellation)
	noRefCheck     bool
	sawCtx         bool
	runNo          int
	ref            *refRun
	maxCalls       int
	hist           []string
	outcomeTag     string
}

func newH(root *spec) *H {
	h := &H{root: root, store: flyt.NewSharedStore(), ctx: context.Background(), nodes: map[*spec]flyt.Node{}, visits: map[*spec]int{}}
	core.AtEnd(h.closeRef)
	return h
}

// closeRef releases the reference coroutine (if it is still waiting for a callback).
func (h *H) closeRef() {
	if h.ref != nil {
		h.ref.stop()
		h.ref = nil
	}
}

// on is called by every scripted node callback.
func (h *H) on(c call) answer {
	if c.ph == pPrep {
		h.visits[c.node]++
	}
	c.visit = h.visits[c.node] - 1
	h.calls = append(h.calls, c)
	limit := 600
	if h.maxCalls > limit {
		limit = h.maxCalls
	}
	if len(h.calls) > limit {
		core.Problem("the run does not terminate: more than %d callbacks (last: %s)", limit, c)
		panic("harness: runaway execution stopped")
	}
	core.Logf("call %v prep=%v exec=%v err=%v", lazyCall{c.node, c.visit, c.ph, c.attempt}, lazyDesc{c.prepVal}, lazyDesc{c.execVal}, c.err)
	if h.preCall != nil {
		h.preCall(h, c)
	}
	if !h.noRefCheck && !h.diverged {
		if h.ref == nil {
			h.ref = startRef(h.root, h.store)
			if len(h.answers) > 0 {
				panic("harness: reference started late")
			}
		}
		if h.ref.over {
			core.Problem("callback %s invoked although the reference run is already over (after %d callbacks)", c, len(h.answers))
		} else if h.allowDeviation != nil && !sameCall(h.ref.expect, c) && h.allowDeviation(h, h.ref.expect, c) {
			h.diverged = true
		} else {
			h.compare(h.ref.expect, c)
		}
	}
	if h.onCall != nil {
		h.onCall(h, c)
	}
	m := h.menu(h, c)
	a := m[core.Choose(len(m))]
	if a.err == errCancelThenFail {
		// the callback gives up because "its" context is gone: it cancels the run's context and
		// returns its own error value wrapping ctx.Err()
		if cc, ok := h.ctx.(*core.Ctx); ok {
			cc.CancelInline(context.Canceled)
		}
		a.err = &wrapErr{tag: "operation abandoned", inner: h.ctx.Err()}
		h.cancelFail = a.err
		core.Logf("callback cancels the context and fails with %v", a.err)
	}
	h.answers = append(h.answers, a)
	if h.ref != nil && !h.diverged {
		h.ref.feed(a)
	}
	core.Logf("  answer val=%v err=%v action=%q", lazyDesc{a.val}, a.err, a.action)
	return a
}

func (h *H) compare(exp, got call) {
	if exp.node != got.node || exp.ph != got.ph || exp.visit != got.visit || (exp.ph == pExec && exp.attempt != got.attempt) {
		core.Problem("lifecycle: framework invoked %s but the reference expects %s next (callbacks so far: %s)", got, exp, h.traceString())
		return
	}
	switch got.ph {
	case pPrep:
		if got.store != h.store {
			core.Problem("%s received a different store than the one given to the run", got)
		}
	case pExec:
		if !sameValue(exp.prepVal, got.prepVal) {
			core.Problem("%s received %s, want the value prep returned %s", got, descVal(got.prepVal), descVal(exp.prepVal))
		}
	case pFallback:
		if !sameValue(exp.prepVal, got.prepVal) {
			core.Problem("%s received prep value %s, want %s", got, descVal(got.prepVal), descVal(exp.prepVal))
		}
		// (the property asks for "the error of the last attempt": that very value, or a wrapper
		// through which errors.Is still finds it — never another attempt's error)
		if got.err != exp.err && (got.err == nil || exp.err == nil || !errors.Is(got.err, exp.err)) {
			core.Problem("%s received error %v, want the error of the last attempt %v", got, got.err, exp.err)
		}
	case pPost:
		if got.store != h.store {
			core.Problem("%s received a different store than the one given to the run", got)
		}
		if !sameValue(exp.prepVal, got.prepVal) {
			core.Problem("%s received prep value %s, want %s", got, descVal(got.prepVal), descVal(exp.prepVal))
		}
		if !sameValue(exp.execVal, got.execVal) {
			core.Problem("%s received exec result %s, want %s", got, descVal(got.execVal), descVal(exp.execVal))
		}
	}
}

func (h *H) traceString() string {
	var sb []string
	for _, c := range h.calls {
		sb = append(sb, c.String())
	}
	return strings.Join(sb, " ")
}

// finish compares the real outcome with the reference's.
func (h *H) finish(action flyt.Action, err error) {
	if (action != "") == (err != nil) {
		core.Problem("run returned (%q, %v): want a non-empty action with nil error, or an empty action with a non-nil error", action, err)
	}
	if h.noRefCheck || h.diverged {
		return
	}
	s, out, done := simulate(h.root, h.store, h.answers)
	if !done {
		core.Problem("run returned (%q, %v) but the reference still expects callback %s (callbacks so far: %s)", action, err, s.next, h.traceString())
		return
	}
	if out.err == nil {
		if err != nil {
			core.Problem("run failed with %v but every phase on the path succeeded (reference action %q)", err, out.action)
		} else if action != out.action {
			core.Problem("run returned action %q, reference says %q", action, out.action)
		}
		return
	}
	if err == nil {
		core.Problem("run reported success (%q) but callback error %v ended the reference run", action, out.err)
		return
	}
	checkErrMatch(err, out.err)
}

// checkErrMatch: the returned error must match the injected one under errors.Is / errors.As.
func checkErrMatch(got, injected error) {
	if !errors.Is(got, injected) {
		core.Problem("returned error %q does not match the callback's error %q under errors.Is", got, injected)
	}
	var we *wrapErr
	if errors.As(injected, &we) {
		var g *wrapErr
		if !errors.As(got, &g) || g != we {
			core.Problem("returned error %q does not expose the callback's own wrapper (%T) under errors.As", got, we)
		}
	}
	var ce *customErr
	if errors.As(injected, &ce) {
		var g *customErr
		if !errors.As(got, &g) || g != ce {
			core.Problem("returned error %q does not expose the callback's custom-typed error under errors.As", got)
		}
	}
}

// errCancelThenFail in a menu stands for "cancel the run's context, then fail with an own error
// value that wraps ctx.Err()" (resolved in H.on at the moment of the call).
var errCancelThenFail = errors.New("<cancel, then fail with an error wrapping ctx.Err()>")

type customErr struct{ tag string }

func (e *customErr) Error() string { return "custom:" + e.tag }

// ---------------------------------------------------------------- scripted node kinds

type baseKind struct {
	*flyt.BaseNode
	h *H
	s *spec
}

func (n *baseKind) Prep(ctx context.Context, st *flyt.SharedStore) (any, error) {
	a := n.h.on(call{node: n.s, ph: pPrep, store: st, ctx: ctx})
	return a.val, a.err
}
func (n *baseKind) Exec(ctx context.Context, p any) (any, error) {
	a := n.h.on(call{node: n.s, ph: pExec, attempt: n.h.attemptOf(n.s), prepVal: p, ctx: ctx})
	return a.val, a.err
}
func (n *baseKind) Post(ctx context.Context, st *flyt.SharedStore, p, e any) (flyt.Action, error) {
	a := n.h.on(call{node: n.s, ph: pPost, store: st, prepVal: p, execVal: e, ctx: ctx})
	return a.action, a.err
}

type baseFbKind struct{ baseKind }

func (n *baseFbKind) ExecFallback(p any, err error) (any, error) {
	a := n.h.on(call{node: n.s, ph: pFallback, prepVal: p, err: err})
	return a.val, a.err
}

type bareKind struct {
	h *H
	s *spec
}

func (n *bareKind) Prep(ctx context.Context, st *flyt.SharedStore) (any, error) {
	a := n.h.on(call{node: n.s, ph: pPrep, store: st, ctx: ctx})
	return a.val, a.err
}
func (n *bareKind) Exec(ctx context.Context, p any) (any, error) {
	a := n.h.on(call{node: n.s, ph: pExec, attempt: n.h.attemptOf(n.s), prepVal: p, ctx: ctx})
	return a.val, a.err
}
func (n *bareKind) Post(ctx context.Context, st *flyt.SharedStore, p, e any) (flyt.Action, error) {
	a := n.h.on(call{node: n.s, ph: pPost, store: st, prepVal: p, execVal: e, ctx: ctx})
	return a.action, a.err
}

type bareRetryKind struct{ bareKind }

func (n *bareRetryKind) GetMaxRetries() int     { return n.s.n }
func (n *bareRetryKind) GetWait() time.Duration { return n.s.wait }

type bareFbKind struct{ bareKind }

func (n *bareFbKind) ExecFallback(p any, err error) (any, error) {
	a := n.h.on(call{node: n.s, ph: pFallback, prepVal: p, err: err})
	return a.val, a.err
}

// attemptOf: index of the exec attempt about to be made for the node's current visit.
func (h *H) attemptOf(s *spec) int {
	k := 0
	for i := len(h.calls) - 1; i >= 0; i-- {
		c := h.calls[i]
		if c.node != s {
			continue
		}
		if c.ph == pExec {
			k++
		} else {
			break
		}
	}
	return k
}

// sortedEdges lists a flow's connections in a fixed order (by source id, then action): the order
// of Connect calls must not depend on Go's map iteration, or replays diverge as soon as a changed
// library makes the order matter.
type edgeT struct {
	from   *spec
	action flyt.Action
	to     *spec
}

func sortedEdges(fs *flowSpec) []edgeT {
	var l []edgeT
	for from, m := range fs.edges {
		for a, to := range m {
			l = append(l, edgeT{from, a, to})
		}
	}
	sort.Slice(l, func(i, j int) bool {
		if l[i].from.id != l[j].from.id {
			return l[i].from.id < l[j].from.id
		}
		return l[i].action < l[j].action
	})
	return l
}

// build constructs (once) the real flyt node for a spec.
func (h *H) build(s *spec) flyt.Node {
	if n, ok := h.nodes[s]; ok {
		return n
	}
	var n flyt.Node
	if s.flow != nil {
		var f *flyt.Flow
		if s.flow.start == s {
			// a flow whose start node is the flow itself cannot be built (and would never terminate)
			panic("spec: flow starts with itself")
		}
		f = flyt.NewFlow(nil)
		var built flyt.Node = f
		if s.exitAs != "" {
			built = &wrapFlow{Flow: f, exit: s.exitAs}
		}
		h.nodes[s] = built // registered first: the flow may contain itself as a node
		outermost := h.buildDepth == 0
		h.buildDepth++
		*f = *flyt.NewFlow(h.build(s.flow.start))
		if s.n > 1 {
			flyt.WithMaxRetries(s.n)(f.BaseNode)
		}
		wire := func() {
			for _, e := range sortedEdges(s.flow) {
				if e.to == nil {
					f.Connect(h.build(e.from), e.action, nil)
				} else {
					f.Connect(h.build(e.from), e.action, h.build(e.to))
				}
			}
		}
		if h.topDown && !outermost {
			// top-down wiring: this flow is handed to its parent while it is still a bare
			// NewFlow(start); its own connections are made after the parent has been wired
			h.deferredWiring = append(h.deferredWiring, wire)
		} else {
			wire()
		}
		if outermost {
			for len(h.deferredWiring) > 0 {
				w := h.deferredWiring[0]
				h.deferredWiring = h.deferredWiring[1:]
				w()
			}
		}
		h.buildDepth--
		return built
	}
	opts := []flyt.NodeOption{flyt.WithMaxRetries(s.n)}
	if s.wait > 0 {
		opts = append(opts, flyt.WithWait(s.wait))
	}
	switch s.kind {
	case kBase:
		n = &baseKind{BaseNode: flyt.NewBaseNode(opts...), h: h, s: s}
	case kBaseZero:
		bn := &flyt.BaseNode{}
		for _, o := range opts {
			o(bn)
		}
		n = &baseKind{BaseNode: bn, h: h, s: s}
	case kBaseFb:
		n = &baseFbKind{baseKind{BaseNode: flyt.NewBaseNode(opts...), h: h, s: s}}
	case kBare:
		n = &bareKind{h: h, s: s}
	case kBareRetry:
		n = &bareRetryKind{bareKind{h: h, s: s}}
	case kBareFb:
		n = &bareFbKind{bareKind{h: h, s: s}}
	case kLog:
		n = &logNode{BaseNode: flyt.NewBaseNode(opts...), h: h, s: s}
	case kLogBatch, kLogBatchBare, kLogBuilder:
		n = h.buildLogVariant(s)
	default:
		n = h.buildFunc(s)
	}
	h.nodes[s] = n
	return n
}

// embedWrap: what the overriding Prep of the embedding kind hands to the framework.
type embedWrap struct{ inner any }

type embedKind struct {
	*flyt.NodeBuilder
}

func (n *embedKind) Prep(ctx context.Context, st *flyt.SharedStore) (any, error) {
	v, err := n.NodeBuilder.Prep(ctx, st)
	if err != nil {
		return nil, err
	}
	return embedWrap{inner: v}, nil
}

func (h *H) buildEmbed(s *spec) flyt.Node {
	unwrap := func(who string, x any) any {
		w, ok := x.(embedWrap)
		if !ok {
			core.Problem("%s %s received %s instead of the value the node's own Prep returned", s.id, who, descVal(x))
			return x
		}
		return w.inner
	}
	b := flyt.NewNode().WithMaxRetries(s.n).
		WithPrepFuncAny(func(ctx context.Context, st *flyt.SharedStore) (any, error) {
			a := h.on(call{node: s, ph: pPrep, store: st, ctx: ctx})
			return a.val, a.err
		}).
		WithExecFunc(func(ctx context.Context, p flyt.Result) (flyt.Result, error) {
			a := h.on(call{node: s, ph: pExec, attempt: h.attemptOf(s), prepVal: unwrap("exec", p.Value()), ctx: ctx})
			if a.err != nil {
				return flyt.Result{}, a.err
			}
			return flyt.NewResult(a.val), nil
		}).
		WithPostFuncAny(func(ctx context.Context, st *flyt.SharedStore, p, e any) (flyt.Action, error) {
			a := h.on(call{node: s, ph: pPost, store: st, prepVal: unwrap("post", p), execVal: e, ctx: ctx})
			return a.action, a.err
		})
	if s.fb {
		b = b.WithExecFallbackFunc(func(p any, err error) (any, error) {
			a := h.on(call{node: s, ph: pFallback, prepVal: unwrap("fallback", p), err: err})
			return a.val, a.err
		})
	}
	return &embedKind{NodeBuilder: b}
}

func (h *H) buildFunc(s *spec) flyt.Node {
	if s.kind == kEmbedBuilder {
		return h.buildEmbed(s)
	}
	prepR := func(ctx context.Context, st *flyt.SharedStore) (flyt.Result, error) {
		a := h.on(call{node: s, ph: pPrep, store: st, ctx: ctx})
		if a.err != nil {
			return flyt.Result{}, a.err
		}
		return flyt.NewResult(a.val), nil
	}
	prepA := func(ctx context.Context, st *flyt.SharedStore) (any, error) {
		a := h.on(call{node: s, ph: pPrep, store: st, ctx: ctx})
		return a.val, a.err
	}
	execR := func(ctx context.Context, p flyt.Result) (flyt.Result, error) {
		if p.IsError() {
			core.Problem("%s exec received an error Result as its prep value", s.id)
		}
		att := h.attemptOf(s)
		a := h.on(call{node: s, ph: pExec, attempt: att, prepVal: p.Value(), ctx: ctx})
		if a.err != nil {
			if att%2 == 1 {
				// a failing attempt may return an error Result NEXT TO its error: it failed all the same
				return flyt.NewErrorResult(a.err), a.err
			}
			return flyt.Result{}, a.err
		}
		return flyt.NewResult(a.val), nil
	}
	execA := func(ctx context.Context, p any) (any, error) {
		a := h.on(call{node: s, ph: pExec, attempt: h.attemptOf(s), prepVal: p, ctx: ctx})
		return a.val, a.err
	}
	postR := func(ctx context.Context, st *flyt.SharedStore, p, e flyt.Result) (flyt.Action, error) {
		if p.IsError() || e.IsError() {
			core.Problem("%s post received an error Result (prep err=%v exec err=%v) although exec succeeded", s.id, p.Error(), e.Error())
		}
		a := h.on(call{node: s, ph: pPost, store: st, prepVal: p.Value(), execVal: e.Value(), ctx: ctx})
		return a.action, a.err
	}
	postA := func(ctx context.Context, st *flyt.SharedStore, p, e any) (flyt.Action, error) {
		a := h.on(call{node: s, ph: pPost, store: st, prepVal: p, execVal: e, ctx: ctx})
		return a.action, a.err
	}
	fb := func(p any, err error) (any, error) {
		a := h.on(call{node: s, ph: pFallback, prepVal: p, err: err})
		return a.val, a.err
	}
	decoy := func(what string) {
		core.Problem("%s: the %s callback that had been REPLACED before the run was invoked", s.id, what)
	}
	dPrepR := func(context.Context, *flyt.SharedStore) (flyt.Result, error) {
		decoy("prep")
		return flyt.Result{}, nil
	}
	dPrepA := func(context.Context, *flyt.SharedStore) (any, error) { decoy("prep"); return nil, nil }
	dExecR := func(context.Context, flyt.Result) (flyt.Result, error) { decoy("exec"); return flyt.Result{}, nil }
	dExecA := func(context.Context, any) (any, error) { decoy("exec"); return nil, nil }
	dPostR := func(context.Context, *flyt.SharedStore, flyt.Result, flyt.Result) (flyt.Action, error) {
		decoy("post")
		return "decoy", nil
	}
	dPostA := func(context.Context, *flyt.SharedStore, any, any) (flyt.Action, error) {
		decoy("post")
		return "decoy", nil
	}
	dFb := func(any, error) (any, error) { decoy("fallback"); return nil, nil }
	switch s.kind {
	case kFuncR, kFuncA:
		o := []any{flyt.WithMaxRetries(s.n)}
		if s.wait > 0 {
			o = append(o, flyt.WithWait(s.wait))
		}
		if s.replaced {
			if s.kind == kFuncR {
				o = append(o, flyt.WithPrepFuncAny(dPrepA), flyt.WithExecFuncAny(dExecA), flyt.WithPostFuncAny(dPostA))
			} else {
				o = append(o, flyt.WithPrepFunc(dPrepR), flyt.WithExecFunc(dExecR), flyt.WithPostFunc(dPostR))
			}
			if s.fb {
				o = append(o, flyt.WithExecFallbackFunc(dFb))
			}
		}
		if s.kind == kFuncR {
			o = append(o, flyt.WithPrepFunc(prepR), flyt.WithExecFunc(execR), flyt.WithPostFunc(postR))
		} else {
			o = append(o, flyt.WithPrepFuncAny(prepA), flyt.WithExecFuncAny(execA), flyt.WithPostFuncAny(postA))
		}
		if s.fb {
			o = append(o, flyt.WithExecFallbackFunc(fb))
		}
		return flyt.NewNode(o...)
	default:
		b := flyt.NewNode().WithMaxRetries(s.n)
		if s.wait > 0 {
			b = b.WithWait(s.wait)
		}
		if s.replaced {
			switch s.kind {
			case kFuncRB:
				b = b.WithPrepFuncAny(dPrepA).WithExecFuncAny(dExecA).WithPostFuncAny(dPostA)
			case kFuncAB:
				b = b.WithPrepFunc(dPrepR).WithExecFunc(dExecR).WithPostFunc(dPostR)
			default:
				b = b.WithPrepFuncAny(dPrepA).WithExecFunc(dExecR).WithPostFuncAny(dPostA)
			}
			if s.fb {
				b = b.WithExecFallbackFunc(dFb)
			}
		}
		switch s.kind {
		case kFuncRB:
			b = b.WithPrepFunc(prepR).WithExecFunc(execR).WithPostFunc(postR)
		case kFuncAB:
			b = b.WithPrepFuncAny(prepA).WithExecFuncAny(execA).WithPostFuncAny(postA)
		default:
			b = b.WithPrepFunc(prepR).WithExecFuncAny(execA).WithPostFunc(postR)
		}
		if s.fb {
			b = b.WithExecFallbackFunc(fb)
		}
		if s.replaced {
			// between two runs of the same node: every phase is set again, several times, and ends
			// up in the OTHER style than before, with NEW function values: the ones that served the
			// previous run have been replaced and must not be called any more
			kind := s.kind
			phaseIdx := map[string]int{"prep": 0, "exec": 1, "post": 2}
			stale := func(gen int, what string) {
				if gen != h.cbGen[phaseIdx[what]] {
					core.Problem("%s: the %s callback that was replaced after an earlier run was invoked again", s.id, what)
				}
			}
			anyStyle := [3]bool{kind == kFuncAB, kind != kFuncRB, kind == kFuncAB} // current style of prep, exec, post (Mix: R, A, R)
			set := func(ph int, toAny bool) {
				h.cbGen[ph]++
				g := h.cbGen[ph]
				anyStyle[ph] = toAny
				switch {
				case ph == 0 && toAny:
					b.WithPrepFuncAny(func(ctx context.Context, st *flyt.SharedStore) (any, error) { stale(g, "prep"); return prepA(ctx, st) })
				case ph == 0:
					b.WithPrepFunc(func(ctx context.Context, st *flyt.SharedStore) (flyt.Result, error) {
						stale(g, "prep")
						return prepR(ctx, st)
					})
				case ph == 1 && toAny:
					b.WithExecFuncAny(func(ctx context.Context, p any) (any, error) { stale(g, "exec"); return execA(ctx, p) })
				case ph == 1:
					b.WithExecFunc(func(ctx context.Context, p flyt.Result) (flyt.Result, error) { stale(g, "exec"); return execR(ctx, p) })
				case toAny:
					b.WithPostFuncAny(func(ctx context.Context, st *flyt.SharedStore, p, e any) (flyt.Action, error) {
						stale(g, "post")
						return postA(ctx, st, p, e)
					})
				default:
					b.WithPostFunc(func(ctx context.Context, st *flyt.SharedStore, p, e flyt.Result) (flyt.Action, error) {
						stale(g, "post")
						return postR(ctx, st, p, e)
					})
				}
			}
			h.reinstall = func() {
				if core.Choose(2) == 0 {
					// every phase again, in the other style than it has now
					for ph := 0; ph < 3; ph++ {
						set(ph, !anyStyle[ph])
					}
					return
				}
				// ONE phase set again 1 … 4 times in its own style; the others stay as they are
				ph, k := core.Choose(3), core.Choose(4)+1
				for i := 0; i < k; i++ {
					set(ph, anyStyle[ph])
				}
			}
			// the first run's callbacks are generation 0
			g0 := func(what string) { stale(0, what) }
			switch kind {
			case kFuncRB:
				b.WithPrepFunc(func(ctx context.Context, st *flyt.SharedStore) (flyt.Result, error) {
					g0("prep")
					return prepR(ctx, st)
				}).
					WithExecFunc(func(ctx context.Context, p flyt.Result) (flyt.Result, error) { g0("exec"); return execR(ctx, p) }).
					WithPostFunc(func(ctx context.Context, st *flyt.SharedStore, p, e flyt.Result) (flyt.Action, error) {
						g0("post")
						return postR(ctx, st, p, e)
					})
			case kFuncAB:
				b.WithPrepFuncAny(func(ctx context.Context, st *flyt.SharedStore) (any, error) { g0("prep"); return prepA(ctx, st) }).
					WithExecFuncAny(func(ctx context.Context, p any) (any, error) { g0("exec"); return execA(ctx, p) }).
					WithPostFuncAny(func(ctx context.Context, st *flyt.SharedStore, p, e any) (flyt.Action, error) {
						g0("post")
						return postA(ctx, st, p, e)
					})
			}
		}
		return b
	}
}

// stdCheck is the execution-level verdict shared by the sequential scenarios.
func stdCheck(outcomeOf func() string) func(x *core.Execution) (string, []string) {
	return func(x *core.Execution) (string, []string) {
		var pr []string
		if x.Deadlock != "" {
			pr = append(pr, "deadlock: "+x.Deadlock)
		}
		if x.Panic != "" {
			pr = append(pr, x.Panic)
		}
		pr = append(pr, x.Races...)
		if x.Horizon {
			return "horizon", pr
		}
		return outcomeOf(), pr
	}
}

// countAction: how many callbacks of this run answered action a so far.
func (h *H) countAction(a flyt.Action) int {
	n := 0
	for _, x := range h.answers {
		if x.action == a && x.err == nil {
			n++
		}
	}
	return n
}

// nextRun starts another run on the same node objects.
func (h *H) nextRun() {
	h.closeRef()
	h.hist = append(h.hist, h.traceString())
	h.answers, h.calls = nil, nil
	h.visits = map[*spec]int{}
	h.runNo++
}

func sameCall(exp, got call) bool {
	return exp.node == got.node && exp.ph == got.ph && exp.visit == got.visit && (exp.ph != pExec || exp.attempt == got.attempt)
}

// lazyDesc / lazyCall format only when the log is actually rendered.
type lazyDesc struct{ v any }

func (l lazyDesc) String() string { return descVal(l.v) }

type lazyCall struct {
	node    *spec
	visit   int
	ph      phase
	attempt int
}

func (l lazyCall) String() string {
	return call{node: l.node, visit: l.visit, ph: l.ph, attempt: l.attempt}.String()
}
