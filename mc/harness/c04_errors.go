package main

// C04 errors are transparent and flows are fail-stop; C10 a flow used as a
// node behaves like a node.  Both run the closed family of nested flow shapes
// (shapes.go) against the reference interpreter.

import (
	"errors"
	"fmt"
	"strings"

	flyt "github.com/mark3labs/flyt"
	"github.com/mark3labs/flyt/zzvrt/core"
)

func init() {
	register(&Property{ID: "C04", Instr: false, Gen: genC04})
}

var (
	errSentinel = errors.New("sentinel-failure")
	errWrapped  = fmt.Errorf("wrapped: %w", errSentinel)
	errCustom   = &customErr{tag: "injected"}
	// the user's own wrapper around an error that flyt itself produced: a callback that ran a
	// sub-flow by hand and returns "tenant X: <that run's error>"
	errAroundSubRun = &wrapErr{tag: "tenant-7", inner: subRunError()}
	injectKinds     = []error{errSentinel, errWrapped, errCustom, errAroundSubRun}
)

type wrapErr struct {
	tag   string
	inner error
}

func (e *wrapErr) Error() string { return e.tag + ": " + e.inner.Error() }
func (e *wrapErr) Unwrap() error { return e.inner }

// subRunError: the error a failing nested run returns (produced by the library itself).
func subRunError() error {
	bad := flyt.NewNode().WithExecFuncAny(func(ctxT, any) (any, error) { return nil, errors.New("sub-run exec failed") })
	_, err := flyt.Run(ctxBackground(), bad, flyt.NewSharedStore())
	if err == nil {
		// the library under test may be broken in exactly this respect: never let the harness
		// depend on it — fall back to an error of the same shape
		err = fmt.Errorf("run: exec failed after 1 retries: %w", errors.New("sub-run exec failed"))
	}
	return err
}

// injectMenu: per callback, the ok answers (actions per `acts`) and — while
// the failure budget allows — the three injected error values.
func injectMenu(acts map[*spec][]flyt.Action, loopHorizon int, allKinds bool) func(h *H, c call) []answer {
	return func(h *H, c call) []answer {
		var m []answer
		switch c.ph {
		case pPrep:
			m = []answer{{val: pvPtr}}
		case pExec:
			m = []answer{{val: evPtr}}
		case pFallback:
			m = []answer{{val: fvPtr}}
		case pPost:
			for _, a := range acts[c.node] {
				if a == "again" && h.countAction("again") >= loopHorizon {
					continue
				}
				m = append(m, answer{action: a})
			}
		}
		// one injected failure per run; further ones only where it takes several
		// failures to end the run: retries and the fallback of the SAME node visit
		nerr, sameVisit := 0, 0
		for i, a := range h.answers {
			if a.err != nil {
				nerr++
				if pc := h.calls[i]; pc.node == c.node && pc.visit == c.visit {
					sameVisit++
				}
			}
		}
		if nerr == 0 || (nerr == sameVisit && (c.ph == pExec || c.ph == pFallback)) {
			// where the callback's failure ends the run on the spot (not an attempt that would be
			// retried), it may also be the callback that cancels the context and reports that
			if _, cancellable := h.ctx.(*core.Ctx); cancellable && (c.ph != pExec || (c.attempt == c.node.attempts()-1 && !c.node.hasFallback())) {
				m = append(m, answer{err: errCancelThenFail})
			}
			if allKinds {
				for _, e := range injectKinds {
					m = append(m, answer{err: e})
				}
			} else {
				// deep shapes: one error kind per position, rotating
				m = append(m, answer{err: injectKinds[len(h.answers)%len(injectKinds)]})
			}
		}
		return m
	}
}

func boolInt(b bool) int {
	if b {
		return 1
	}
	return 0
}

func shapeScenario(name string, d *shapeDesc, kinds []int, mk func(root *spec) (func(h *H, c call) []answer, func(h *H)), runAsNode bool) Scenario {
	return shapeScenarioRuns(name, d, kinds, mk, runAsNode, 1)
}

// shapeScenarioRuns: the same flow object is run `runs` times with independent scripts.
func shapeScenarioRuns(name string, d *shapeDesc, kinds []int, mk func(root *spec) (func(h *H, c call) []answer, func(h *H)), runAsNode bool, runs int) Scenario {
	var h *H
	// the spec tree is an immutable description: built once per scenario
	var root *spec
	var menu func(h *H, c call) []answer
	var setup func(h *H)
	body := func() {
		if root == nil {
			g := &shapeGen{leafKinds: kinds, counter: rotationOf(name)}
			root = g.build(d, "r")
			menu, setup = mk(root)
		}
		h = newH(root)
		h.menu = menu
		h.topDown = rotationOf(name)%2 == 1 // half of the scenarios wire nested flows top-down
		if setup != nil {
			setup(h)
		}
		node := h.build(root)
		for r := 0; r < runs; r++ {
			if r > 0 {
				h.nextRun()
			}
			if !d.uses(shFlowRetry) {
				// a cancellable context per run (a callback may cancel it and fail, see injectMenu);
				// not where a flow retries as a whole: its next attempt would meet the cancellation
				cctx, _ := core.WithCancel(ctxBackground())
				h.ctx = cctx
			}
			var a flyt.Action
			var err error
			if runAsNode {
				a, err = flyt.Run(h.ctx, node, h.store)
			} else {
				err = node.(*flyt.Flow).Run(h.ctx, h.store)
				if err == nil {
					a = "?" // Flow.Run does not report the action
				}
			}
			core.Logf("run %d returned (%q, %v)", r+1, a, err)
			if runAsNode {
				h.finish(a, err)
			} else {
				h.finishErrOnly(err)
			}
		}
	}
	return Scenario{Name: name, Body: body, Check: stdCheck(func() string {
		if h == nil {
			return "?"
		}
		return strings.Join(append(append([]string(nil), h.hist...), h.traceString()), " | ") + h.outcomeTag
	})}
}

// finishErrOnly: like finish for Flow.Run, which only returns an error.
func (h *H) finishErrOnly(err error) {
	if h.noRefCheck || h.diverged {
		return
	}
	s, out, done := simulate(h.root, h.store, h.answers)
	if !done {
		core.Problem("Flow.Run returned %v but the reference still expects callback %s (callbacks so far: %s)", err, s.next, h.traceString())
		return
	}
	if out.err == nil {
		h.outcomeTag = " => ok"
		if err != nil {
			core.Problem("Flow.Run failed with %v but every phase on the path succeeded", err)
		}
		return
	}
	h.outcomeTag = " => err"
	if err == nil {
		core.Problem("Flow.Run reported success but callback error %v ended the reference run", out.err)
		return
	}
	checkErrMatch(err, out.err)
}

var c04Kinds = []int{kBase, kBaseFb, kBare, kFuncR, kFuncA, kBareRetry, kFuncRB, kFuncAB, kFuncMix}

func genC04(tier string) []Scenario {
	var out []Scenario
	depth := 3
	if tier == "thorough" {
		depth = 4
	}
	for i, d := range enumShapes(depth, false) {
		d := d
		mk := func(root *spec) (func(h *H, c call) []answer, func(h *H)) {
			return injectMenu(collectActions(root), 2, true), nil
		}
		out = append(out, shapeScenario(fmt.Sprintf("inject shape#%d=%s", i, d), d, c04Kinds, mk, i%2 == 0))
	}
	// the same flow object after several identical, successful runs: a failure in the 2nd … 5th run
	// is reported like one in the first (every earlier run takes the first answer everywhere)
	for i, d := range enumShapes(2, false) {
		if d.slot >= 0 && (d.inner.slot >= 0 || d.base >= numCoreShapes || d.inner.base >= numCoreShapes) {
			continue
		}
		if d.slot < 0 && d.base >= numCoreShapes {
			continue
		}
		for _, runs := range []int{2, 4, 5} {
			d, runs := d, runs
			mk := func(root *spec) (func(h *H, c call) []answer, func(h *H)) {
				inj := injectMenu(collectActions(root), 2, false)
				return func(h *H, c call) []answer {
					m := inj(h, c)
					if h.runNo < runs-1 {
						return m[:1]
					}
					return m
				}, nil
			}
			out = append(out, shapeScenarioRuns(fmt.Sprintf("inject after %d identical successful runs shape#%d=%s", runs-1, i, d), d, c04Kinds, mk, i%2 == 0, runs))
		}
	}
	// a batch node as a flow step: prep / post failures are run-ending and wrapped transparently
	for _, where := range []string{"prep", "post", "post+item-failure", "none", "post-of-empty-batch", "none-empty-batch"} {
		for ek, e := range injectKinds {
			where, e := where, e
			if strings.HasPrefix(where, "none") && ek > 0 {
				continue
			}
			empty := strings.HasSuffix(where, "empty-batch")
			for _, c := range []int{0} {
				c := c
				var problems int
				body := func() {
					problems = 0
					store := flyt.NewSharedStore()
					var trace []string
					mkLeaf := func(id string) flyt.Node {
						return flyt.NewNode().WithExecFuncAny(func(ctxT, any) (any, error) {
							trace = append(trace, id)
							return nil, nil
						})
					}
					a, z := mkLeaf("A"), mkLeaf("Z")
					b := flyt.NewBatchNode().WithBatchConcurrency(c).
						WithPrepFunc(func(ctxT, *flyt.SharedStore) ([]flyt.Result, error) {
							trace = append(trace, "B.prep")
							if where == "prep" {
								return nil, e
							}
							if empty {
								return []flyt.Result{}, nil
							}
							return []flyt.Result{flyt.NewResult(1), flyt.NewResult(2)}, nil
						}).
						WithExecFunc(func(_ ctxT, it flyt.Result) (flyt.Result, error) {
							trace = append(trace, "B.exec")
							if where == "post+item-failure" && it.Value() == 1 {
								return flyt.Result{}, errors.New("item 1 failed") // an item error is not run-ending
							}
							return it, nil
						}).
						WithPostFunc(func(ctxT, *flyt.SharedStore, []flyt.Result, []flyt.Result) (flyt.Action, error) {
							trace = append(trace, "B.post")
							if where == "post" || where == "post+item-failure" || where == "post-of-empty-batch" {
								return "", e
							}
							return flyt.DefaultAction, nil
						})
					inner := flyt.NewFlow(a).Connect(a, flyt.DefaultAction, b).Connect(b, flyt.DefaultAction, z)
					outer := flyt.NewFlow(inner)
					err := outer.Run(ctxBackground(), store)
					core.Logf("trace=%v err=%v", trace, err)
					want := []string{"A", "B.prep", "B.exec", "B.exec", "B.post", "Z"}
					switch where {
					case "prep":
						want = want[:2]
					case "post", "post+item-failure":
						want = want[:5]
					case "post-of-empty-batch":
						want = []string{"A", "B.prep", "B.post"}
					case "none-empty-batch":
						want = []string{"A", "B.prep", "B.post", "Z"}
					}
					if fmt.Sprint(trace) != fmt.Sprint(want) {
						core.Problem("batch step: callbacks %v, want %v", trace, want)
					}
					if strings.HasPrefix(where, "none") {
						if err != nil {
							core.Problem("batch step: unexpected error %v", err)
						}
					} else if err == nil {
						core.Problem("batch step: %s failure swallowed", where)
					} else {
						checkErrMatch(err, e)
					}
					_ = problems
				}
				out = append(out, Scenario{Name: fmt.Sprintf("inject batch-step where=%s err=%T c=%d", where, e, c), Body: body, Check: stdCheck(func() string { return where })})
			}
		}
	}
	return out
}
