package main

// C16 Bind: identity for matching types, JSON round-trip otherwise, never
// panics.  Product of a value catalogue and a destination catalogue (fresh and
// pre-populated), for SharedStore.Bind and Result.Bind, against encoding/json.

import (
	"encoding/json"
	"fmt"
	"math"
	"reflect"
	"time"

	flyt "github.com/mark3labs/flyt"
	"github.com/mark3labs/flyt/zzvrt/core"
)

func init() {
	register(&Property{ID: "C16", Instr: false, Gen: genC16})
}

type bTagged struct {
	ID   int      `json:"id"`
	Name string   `json:"name"`
	Tags []string `json:"tags,omitempty"`
}
type bUntagged struct {
	ID   int
	Name string
}
type bHidden struct {
	Pub  int
	priv int
	Skip string `json:"-"`
}
type bNested struct {
	In  bTagged        `json:"in"`
	M   map[string]int `json:"m"`
	P   *bUntagged     `json:"p"`
	Any any            `json:"any"`
}

type bRaw struct {
	ID   int             `json:"id"`
	Name json.RawMessage `json:"name"`
	Html json.RawMessage `json:"html"`
	Raw  json.RawMessage `json:"raw"`
}

// bReentrant: a destination whose UnmarshalJSON itself binds another key of a store while the
// outer Bind is still decoding (buffers must not be shared between the two)
type bReentrant struct {
	Outer map[string]any
	Inner bTagged
}

var reentrantStore = func() *flyt.SharedStore {
	s := flyt.NewSharedStore()
	s.Set("inner", map[string]any{"id": 77, "name": "inner-value-that-is-fairly-long-to-fill-a-buffer"})
	return s
}()

func (d *bReentrant) UnmarshalJSON(b []byte) error {
	if err := reentrantStore.Bind("inner", &d.Inner); err != nil {
		return err
	}
	return json.Unmarshal(b, &d.Outer)
}

// named scalar types with their own JSON form: the round trip goes through THEIR methods
type cPriority int

func (p cPriority) MarshalJSON() ([]byte, error) {
	return json.Marshal(map[cPriority]string{0: "low", 1: "high"}[p])
}
func (p *cPriority) UnmarshalJSON(b []byte) error {
	var s string
	if err := json.Unmarshal(b, &s); err != nil {
		return err
	}
	switch s {
	case "low":
		*p = 0
	case "high":
		*p = 1
	default:
		return fmt.Errorf("unknown priority %q", s)
	}
	return nil
}

type cCents int64

func (c cCents) MarshalJSON() ([]byte, error) { return json.Marshal(int64(c) / 100) }

type cLevel int8

func (l cLevel) MarshalText() ([]byte, error) { return []byte(fmt.Sprintf("L%d", int(l))), nil }
func (l *cLevel) UnmarshalText(b []byte) error {
	var n int
	if _, err := fmt.Sscanf(string(b), "L%d", &n); err != nil {
		return err
	}
	*l = cLevel(n)
	return nil
}

type cRatio float64

func (r cRatio) MarshalJSON() ([]byte, error) {
	return json.Marshal(fmt.Sprintf("%.0f%%", float64(r)*100))
}

type cFlag bool

func (f cFlag) MarshalJSON() ([]byte, error) {
	if f {
		return []byte(`"yes"`), nil
	}
	return []byte(`"no"`), nil
}

type cName string

func (n cName) MarshalJSON() ([]byte, error) {
	return json.Marshal(map[string]string{"name": string(n)})
}

func bindValues() []any {
	one := 1
	var nilT *bTagged
	var nilM map[string]any
	var nilS []int
	return []any{
		map[string]any{"id": 7, "name": "n", "tags": []any{"a"}},
		map[string]any{"id": "not-a-number"},
		map[string]any{"ID": 1, "Name": "x", "extra": true},
		map[string]any{},
		map[string]any{"in": map[string]any{"id": 1}, "m": map[string]any{"a": 1}, "p": nil, "any": []any{1, "x"}},
		map[string]int{"a": 1},
		map[int]string{1: "a"},
		map[string]any{"f": func() {}},
		bTagged{ID: 1, Name: "t", Tags: []string{"x"}},
		&bTagged{ID: 2},
		bUntagged{ID: 3, Name: "u"},
		bHidden{Pub: 1, priv: 2, Skip: "s"},
		bNested{In: bTagged{ID: 9}, M: map[string]int{"k": 1}, P: &bUntagged{ID: 4}, Any: 1.5},
		[]int{1, 2, 3}, []any{1, "a", nil}, []string{"a"}, []byte("hi"), [2]int{1, 2}, []bTagged{{ID: 1}},
		7, int64(1) << 60, uint8(200), 1.5, math.NaN(), math.Inf(1), "s", "", "123", true, false,
		// whole floats beyond 2^53 (JSON prints the shortest decimal that round-trips, not the integer), at the int64 edges
		float64(1<<53 + 2), float64(1<<54 + 8), 1700000000123456768.0, -9223372036854775808.0, 9223372036854775808.0, 1e19, -0.0, 3.0,
		int64(math.MaxInt64), int64(math.MinInt64), uint64(math.MaxUint64), int64(1<<53 + 1),
		&one, nilT, nilM, nilS, make(chan int), func() {}, time.Second, myInt(5), myStr("ms"),
		json.Number("12"), json.RawMessage(`{"id":5}`), struct{}{}, fmt.Errorf("e"),
		map[string]any{"deep": map[string]any{"deeper": map[string]any{"deepest": []any{map[string]any{"x": 1}}}}},
		"a<b>&c", map[string]any{"html": "<script>&amp;</script>", "id": 3}, []string{"<", ">", "&"}, bUntagged{ID: 1, Name: "R&D <x>"},
		cPriority(1), cCents(1250), cLevel(3), cRatio(0.5), cFlag(true), cName("n"), []cPriority{0, 1}, map[string]cCents{"a": 250},
	}
}

// destination factories: each call yields a fresh destination (and says how to pre-populate it)
type destSpec struct {
	name string
	mk   func(pre bool) any
}

func destSpecs() []destSpec {
	ptrTo := func(name string, zero func(pre bool) reflect.Value) destSpec {
		return destSpec{name: name, mk: func(pre bool) any {
			v := zero(pre)
			p := reflect.New(v.Type())
			p.Elem().Set(v)
			return p.Interface()
		}}
	}
	val := func(z, pre any) func(bool) reflect.Value {
		return func(p bool) reflect.Value {
			if p {
				return reflect.ValueOf(clone(pre))
			}
			return reflect.ValueOf(z)
		}
	}
	var anyZero any
	return []destSpec{
		ptrTo("*int", val(0, 42)), ptrTo("*string", val("", "pre")), ptrTo("*float64", val(0.0, 4.5)), ptrTo("*bool", val(false, true)),
		ptrTo("*uint8", val(uint8(0), uint8(9))), ptrTo("*int64", val(int64(0), int64(5))),
		{name: "*any", mk: func(pre bool) any {
			x := anyZero
			if pre {
				x = map[string]any{"pre": 1}
			}
			return &x
		}},
		ptrTo("*map[string]any", val(map[string]any(nil), map[string]any{"pre": 1, "id": 0})),
		ptrTo("*map[string]int", val(map[string]int(nil), map[string]int{"pre": 1})),
		ptrTo("*map[int]string", val(map[int]string(nil), map[int]string{9: "pre"})),
		ptrTo("*[]int", val([]int(nil), []int{9, 9, 9, 9})), ptrTo("*[]any", val([]any(nil), []any{"pre"})), ptrTo("*[]string", val([]string(nil), []string{"pre"})),
		ptrTo("*[]byte", val([]byte(nil), []byte("pre"))), ptrTo("*[2]int", val([2]int{}, [2]int{8, 8})),
		ptrTo("*bTagged", val(bTagged{}, bTagged{ID: 100, Name: "pre", Tags: []string{"p"}})),
		ptrTo("*bUntagged", val(bUntagged{}, bUntagged{ID: 100, Name: "pre"})),
		ptrTo("*bHidden", val(bHidden{}, bHidden{Pub: 100, priv: 200, Skip: "pre"})),
		ptrTo("*bNested", val(bNested{}, bNested{M: map[string]int{"pre": 1}, P: &bUntagged{ID: 100}})),
		{name: "**bTagged", mk: func(pre bool) any {
			var p *bTagged
			if pre {
				p = &bTagged{ID: 100}
			}
			return &p
		}},
		{name: "**int", mk: func(pre bool) any { var p *int; return &p }},
		ptrTo("*[]bTagged", val([]bTagged(nil), []bTagged{{ID: 100}})),
		{name: "*chan int", mk: func(pre bool) any { var c chan int; return &c }},
		{name: "*func()", mk: func(pre bool) any { var f func(); return &f }},
		ptrTo("*time.Duration", val(time.Duration(0), time.Minute)), ptrTo("*myInt", val(myInt(0), myInt(3))), ptrTo("*myStr", val(myStr(""), myStr("pre"))),
		ptrTo("*json.Number", val(json.Number(""), json.Number("1"))),
		ptrTo("*cPriority", val(cPriority(0), cPriority(1))), ptrTo("*cCents", val(cCents(0), cCents(5))), ptrTo("*cLevel", val(cLevel(0), cLevel(2))),
		ptrTo("*cRatio", val(cRatio(0), cRatio(1))), ptrTo("*cFlag", val(cFlag(false), cFlag(true))), ptrTo("*cName", val(cName(""), cName("pre"))),
		{name: "*error", mk: func(pre bool) any { var e error; return &e }},
		ptrTo("*struct{}", val(struct{}{}, struct{}{})),
		ptrTo("*json.RawMessage", val(json.RawMessage(nil), json.RawMessage(`"pre"`))),
		ptrTo("*bRaw", val(bRaw{}, bRaw{ID: 9, Raw: json.RawMessage(`1`)})),
		{name: "*bReentrant", mk: func(pre bool) any { return &bReentrant{} }},
		// hostile destinations
		{name: "nil", mk: func(bool) any { return nil }},
		{name: "non-pointer struct", mk: func(bool) any { return bTagged{} }},
		{name: "non-pointer int", mk: func(bool) any { return 5 }},
		{name: "typed nil *int", mk: func(bool) any { return (*int)(nil) }},
		{name: "typed nil *bTagged", mk: func(bool) any { return (*bTagged)(nil) }},
		{name: "map (non-pointer)", mk: func(bool) any { return map[string]any{} }},
		{name: "slice (non-pointer)", mk: func(bool) any { return []int{} }},
	}
}

// clone: structural copy through reflection for the pre-populated values (maps/slices/pointers are rebuilt)
func clone(v any) any {
	return cloneRV(reflect.ValueOf(v)).Interface()
}

func cloneRV(v reflect.Value) reflect.Value {
	switch v.Kind() {
	case reflect.Map:
		if v.IsNil() {
			return v
		}
		m := reflect.MakeMapWithSize(v.Type(), v.Len())
		it := v.MapRange()
		for it.Next() {
			m.SetMapIndex(it.Key(), cloneRV(it.Value()))
		}
		return m
	case reflect.Slice:
		if v.IsNil() {
			return v
		}
		s := reflect.MakeSlice(v.Type(), v.Len(), v.Len())
		for i := 0; i < v.Len(); i++ {
			s.Index(i).Set(cloneRV(v.Index(i)))
		}
		return s
	case reflect.Ptr:
		if v.IsNil() {
			return v
		}
		p := reflect.New(v.Type().Elem())
		p.Elem().Set(cloneRV(v.Elem()))
		return p
	case reflect.Interface:
		if v.IsNil() {
			return v
		}
		c := cloneRV(v.Elem())
		r := reflect.New(v.Type()).Elem()
		r.Set(c)
		return r
	case reflect.Struct:
		s := reflect.New(v.Type()).Elem()
		s.Set(v) // copies unexported fields too
		for i := 0; i < v.NumField(); i++ {
			if s.Field(i).CanSet() {
				s.Field(i).Set(cloneRV(v.Field(i)))
			}
		}
		return s
	}
	return v
}

// snapshot: a printable deep description of a value (to detect modification of the source)
func snapshot(v any) string { return short(reflect.ValueOf(v), 8) }

func destIsValidPtr(d any) bool {
	rv := reflect.ValueOf(d)
	return d != nil && rv.Kind() == reflect.Ptr && !rv.IsNil()
}

func checkBind(v any, ds destSpec, pre bool) []string {
	var pr []string
	bad := func(format string, a ...any) {
		pr = append(pr, fmt.Sprintf("Bind %s into %s (prepopulated=%v): ", describe(v), ds.name, pre)+fmt.Sprintf(format, a...))
	}
	before := snapshot(v)
	// --- result.Bind
	dR := ds.mk(pre)
	var errR error
	if p, pv := try(func() { errR = flyt.NewResult(v).Bind(dR) }); p {
		bad("Result.Bind panicked: %v", pv)
		return pr
	}
	// --- store.Bind (the store has a history: another value was stored and bound there before,
	// successfully; one bind failed while decoding, one while encoding)
	dS := ds.mk(pre)
	st := flyt.NewSharedStore()
	st.Set("k", map[string]any{"id": 999, "name": "previous"})
	try(func() { var scratch bTagged; st.Bind("k", &scratch); var scratch2 any; st.Bind("k", &scratch2) })
	st.Set("k", bUntagged{ID: 998, Name: "previous, a plain struct"})
	try(func() {
		var s1, s2, s3 bTagged
		st.Bind("k", &s1)
		st.Bind("k", &s2)
		st.Bind("k", &s3)
	})
	st.Set("bad", map[string]any{"id": "not-a-number"})
	try(func() { var scratch bTagged; st.Bind("bad", &scratch) })
	st.Set("worse", make(chan int))
	try(func() { var scratch bTagged; st.Bind("worse", &scratch) })
	st.Delete("bad")
	st.Delete("worse")
	if !pre {
		// ... and on this route the key itself is deleted and set again (rather than overwritten)
		st.Delete("k")
		st.Set("k", v)
	}
	st.Merge(map[string]any{"k": v})
	var errS error
	if p, pv := try(func() { errS = st.Bind("k", dS) }); p {
		bad("SharedStore.Bind panicked: %v", pv)
		return pr
	}
	if after := snapshot(v); after != before {
		bad("the bound value was modified: %s -> %s", before, after)
	}
	// the stored value must still be the same value
	if got, _ := st.Get("k"); !eqElem(got, v) && !(got == nil && v == nil) {
		bad("the stored value changed")
	}
	if !destIsValidPtr(dR) {
		if errR == nil || errS == nil {
			bad("nil / non-pointer destination accepted (result err=%v, store err=%v)", errR, errS)
		}
		return pr
	}
	if v == nil {
		return pr // nil values: checked separately (result must refuse)
	}
	if (errR == nil) != (errS == nil) {
		bad("Result.Bind err=%v but SharedStore.Bind err=%v", errR, errS)
	}
	elemT := reflect.TypeOf(dR).Elem()
	if reflect.TypeOf(v) == elemT {
		// identity
		if errR != nil {
			bad("same-type bind failed: %v", errR)
			return pr
		}
		for _, d := range []any{dR, dS} {
			got := reflect.ValueOf(d).Elem().Interface()
			if !eqElem(got, v) {
				bad("same-type bind produced %s", describe(got))
			}
		}
		return pr
	}
	// JSON reference on a fresh destination with the same initial contents
	ref := ds.mk(pre)
	var refErr error
	data, merr := json.Marshal(v)
	if merr != nil {
		refErr = merr
	} else {
		refErr = json.Unmarshal(data, ref)
	}
	if (errR == nil) != (refErr == nil) {
		bad("Result.Bind err=%v, encoding/json reference err=%v", errR, refErr)
	}
	if (errS == nil) != (refErr == nil) {
		bad("SharedStore.Bind err=%v, encoding/json reference err=%v", errS, refErr)
	}
	for name, d := range map[string]any{"Result.Bind": dR, "SharedStore.Bind": dS} {
		if !reflect.DeepEqual(reflect.ValueOf(d).Elem().Interface(), reflect.ValueOf(ref).Elem().Interface()) {
			bad("%s left the destination as %s, encoding/json gives %s", name, snapshot(reflect.ValueOf(d).Elem().Interface()), snapshot(reflect.ValueOf(ref).Elem().Interface()))
		}
	}
	return pr
}

func genC16(tier string) []Scenario {
	vals := bindValues()
	if tier == "thorough" {
		vals = append(vals, derivedValues(vals)...)
		vals = append(vals, derivedValues(baseValues()[:120])...)
	}
	dests := destSpecs()
	var out []Scenario
	out = append(out, Scenario{Name: "bind after the stored value was changed in place (same object, same length), with and without setting it again", Direct: bindAfterMutation})
	const chunks = 8
	for c := 0; c < chunks; c++ {
		c := c
		out = append(out, Scenario{Name: fmt.Sprintf("bind values[%d mod %d] of %d x %d destinations x {fresh,prepopulated} x {store,result}", c, chunks, len(vals), len(dests)), Direct: func(deadline time.Time) *core.Stats {
			st := &core.Stats{ByCost: map[int]int64{}, Outcomes: map[string]int64{}}
			for i := c; i < len(vals); i += chunks {
				for _, ds := range dests {
					for _, pre := range []bool{false, true} {
						pr := checkBind(vals[i], ds, pre)
						st.Executions++
						st.Transitions += 3
						st.Outcomes[fmt.Sprintf("%T->%s", vals[i], ds.name)]++
						if len(pr) > 0 && len(st.Violations) < 10 {
							st.Violations = append(st.Violations, core.Violation{Msgs: pr, Log: []string{"value " + describe(vals[i]) + " dest " + ds.name}})
						}
					}
				}
				st.TreeNodes++
			}
			if c == 0 {
				// missing key, nil result value
				s := flyt.NewSharedStore()
				var d bTagged
				var e1, e2, e3 error
				if p, pv := try(func() {
					e1 = s.Bind("absent", &d)
					e2 = flyt.NewResult(nil).Bind(&d)
					e3 = flyt.NewErrorResult(fmt.Errorf("x")).Bind(&d)
				}); p {
					st.Violations = append(st.Violations, core.Violation{Msgs: []string{fmt.Sprintf("Bind on missing key / nil value panicked: %v", pv)}})
				} else if e1 == nil || e2 == nil || e3 == nil {
					st.Violations = append(st.Violations, core.Violation{Msgs: []string{fmt.Sprintf("missing key / nil result value must be an error: store=%v result=%v error-result=%v", e1, e2, e3)}})
				}
				mp1, _ := try(func() { s.MustBind("absent", &d) })
				mp2, _ := try(func() { flyt.NewResult(nil).MustBind(&d) })
				if !mp1 || !mp2 {
					st.Violations = append(st.Violations, core.Violation{Msgs: []string{"MustBind did not panic on a failing bind"}})
				}
				st.Executions += 5
			}
			st.ByCost[0] = st.Executions
			st.SampleLog = []string{"Bind " + describe(vals[c]) + " into each destination, compared with json.Marshal+json.Unmarshal on an identical fresh destination"}
			return st
		}})
	}
	return out
}

// bindAfterMutation: Bind is the JSON round trip of what the value holds NOW.  The caller keeps
// the object it stored (a map, a slice, a pointer to a struct), binds, changes the object in place
// without changing its length, optionally sets it again, binds 1..3 more times: every bind equals
// the round trip of the current contents, through the store and through a Result alike.  (The
// destinations are of another type than the value: a destination of the value's own type is
// assigned directly, which the value x destination matrix covers.)
func bindAfterMutation(deadline time.Time) *core.Stats {
	st := &core.Stats{ByCost: map[int]int64{}, Outcomes: map[string]int64{}}
	type mut struct {
		name   string
		fresh  func() any
		change func(v any)
		dest   func() any
	}
	muts := []mut{
		{"map value overwritten", func() any { return map[string]any{"id": 1, "name": "a"} }, func(v any) { v.(map[string]any)["id"] = 2 }, func() any { return &bTagged{} }},
		{"map key swapped", func() any { return map[string]any{"id": 1, "name": "a"} }, func(v any) { m := v.(map[string]any); delete(m, "name"); m["tags"] = []any{"t"} }, func() any { return &bTagged{} }},
		{"slice element overwritten", func() any { return []int{1, 2, 3} }, func(v any) { v.([]int)[0] = 9 }, func() any { return &[]int64{} }},
		{"[]any element overwritten", func() any { return []any{"x", "a"} }, func(v any) { v.([]any)[1] = "b" }, func() any { return &[]string{} }},
		{"pointed-to struct field overwritten", func() any { return &bUntagged{ID: 1, Name: "a"} }, func(v any) { v.(*bUntagged).Name = "b" }, func() any { return &map[string]any{} }},
		{"map nested value overwritten", func() any { return map[string]any{"in": map[string]any{"id": 1}} }, func(v any) { v.(map[string]any)["in"].(map[string]any)["id"] = 5 }, func() any { return &bNested{} }},
	}
	complain := func(msg string) {
		if len(st.Violations) < 10 {
			st.Violations = append(st.Violations, core.Violation{Msgs: []string{msg}, Log: []string{msg}})
		}
	}
	for _, mu := range muts {
		for firstBinds := 0; firstBinds <= 2; firstBinds++ {
			for _, setAgain := range []bool{false, true} {
				for later := 1; later <= 2; later++ {
					store := flyt.NewSharedStore()
					v := mu.fresh()
					store.Set("k", v)
					for i := 0; i < firstBinds; i++ {
						_ = store.Bind("k", mu.dest())
					}
					mu.change(v)
					if setAgain {
						store.Set("k", v)
					}
					for i := 0; i < later; i++ {
						got, ref, viaResult := mu.dest(), mu.dest(), mu.dest()
						err := store.Bind("k", got)
						rerr := flyt.NewResult(v).Bind(viaResult)
						b, merr := json.Marshal(v)
						if merr == nil {
							merr = json.Unmarshal(b, ref)
						}
						if (err == nil) != (merr == nil) || (err == nil && !reflect.DeepEqual(got, ref)) {
							complain(fmt.Sprintf("%s (binds before the change: %d, set again: %v, bind #%d after it): store Bind gives %s (err %v), the JSON round trip of the current value gives %s (err %v)", mu.name, firstBinds, setAgain, i+1, snapshot(got), err, snapshot(ref), merr))
						}
						if (rerr == nil) != (err == nil) || (err == nil && !reflect.DeepEqual(got, viaResult)) {
							complain(fmt.Sprintf("%s: store Bind gives %s (err %v) but Result.Bind of the same value gives %s (err %v)", mu.name, snapshot(got), err, snapshot(viaResult), rerr))
						}
					}
					st.Executions++
					st.Transitions += int64(firstBinds + later + 3)
					st.Outcomes[fmt.Sprintf("%s/%d/%v", mu.name, firstBinds, setAgain)]++
				}
			}
		}
	}
	st.TreeNodes = int64(len(muts))
	st.ByCost[0] = st.Executions
	st.SampleLog = []string{"Set(k, m); Bind(k, &d); m[id] = 2; Bind(k, &d) gives id 2"}
	return st
}
