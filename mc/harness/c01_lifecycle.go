package main

// C01 node lifecycle and C02 retry budget / fallback: every kind x budget x
// lazily enumerated per-phase outcome script, checked online against the
// reference interpreter (ref.go).

import (
	"context"
	"errors"
	"fmt"
	"math"
	"strings"

	flyt "github.com/mark3labs/flyt"
	"github.com/mark3labs/flyt/zzvrt/core"
)

func init() {
	register(&Property{ID: "C01", Instr: false, Gen: genC01})
}

var (
	pvPtr    = &payloadT{"prep"}
	pvMap    = map[string]int{"k": 1}
	evPtr    = &payloadT{"exec"}
	evMap    = map[string]any{"r": []int{1}}
	fvPtr    = &payloadT{"fallback"}
	junkPtr  = &payloadT{"junk-from-failed-attempt"}
	pvPtr2   = &payloadT{"prep-second-run"}
	growBuf  = make([]int, 8)
	evPtr2   = &payloadT{"exec-second-run"}
	evResult = flyt.NewResult(7) // a payload that is itself a (non-error) Result value
	errPrep  = errors.New("prep-failed")
	errPost  = errors.New("post-failed")
	errFb    = errors.New("fallback-failed")
	// errExecMixed: what a failing attempt returns in the lifecycle scenarios.  Every third one
	// wraps context.DeadlineExceeded / context.Canceled although the run's own context is alive
	// (a per-attempt timeout inside exec): to the framework it is a failed attempt like any other.
	errExecMixed = func() []error {
		var l []error
		for i := 0; i < 12; i++ {
			switch i % 3 {
			case 0:
				l = append(l, fmt.Errorf("exec-failed-attempt-%d (inner timeout): %w", i, context.DeadlineExceeded))
			case 1:
				l = append(l, fmt.Errorf("exec-failed-attempt-%d", i))
			default:
				l = append(l, fmt.Errorf("exec-failed-attempt-%d (inner cancel): %w", i, context.Canceled))
			}
		}
		return l
	}()
	errExec = func() []error {
		var l []error
		for i := 0; i < 12; i++ {
			l = append(l, fmt.Errorf("exec-failed-attempt-%d", i))
		}
		return l
	}()
)

// fullMenu: the complete per-phase answer alphabet of C01.
func fullMenu(prepVals []any) func(h *H, c call) []answer {
	return func(h *H, c call) []answer {
		if h.runNo > 0 {
			// later runs on the same node object: different payloads, smaller alphabet
			switch c.ph {
			case pPrep:
				return []answer{{val: pvPtr2}, {err: errPrep}}
			case pExec:
				return []answer{{val: evPtr2}, {val: junkPtr, err: errExec[c.attempt]}}
			case pFallback:
				return []answer{{val: fvPtr}, {err: errFb}}
			default:
				return []answer{{action: "y"}}
			}
		}
		switch c.ph {
		case pPrep:
			var m []answer
			for _, v := range prepVals {
				m = append(m, answer{val: v})
			}
			return append(m, answer{err: errPrep})
		case pExec:
			// a failing attempt also returns a (junk) value: it must never reach a later phase
			return []answer{{val: evPtr}, {val: junkPtr, err: errExecMixed[c.attempt]}, {val: nil}, {val: evMap}, {val: evResult}}
		case pFallback:
			return []answer{{val: fvPtr}, {err: errFb}, {val: nil}}
		default:
			// (a failing post may well return an action next to its error: the run still reports none)
			return []answer{{action: "x"}, {action: ""}, {action: flyt.DefaultAction}, {err: errPost}, {action: "ignored-because-post-failed", err: errPost}}
		}
	}
}

// fixedNode: a node that always succeeds with a fixed action (used as the
// first node of a flow when the node under test is placed second).
func fixedMenu(inner func(h *H, c call) []answer, fixed *spec, act flyt.Action) func(h *H, c call) []answer {
	return func(h *H, c call) []answer {
		if c.node == fixed {
			switch c.ph {
			case pPost:
				return []answer{{action: act}}
			default:
				return []answer{{val: nil}}
			}
		}
		return inner(h, c)
	}
}

const (
	placeDirect = iota
	placeOnlyInFlow
	placeSecondInFlow
)

func placeName(p int) string {
	return [...]string{"Run", "only-node-of-flow", "second-node-of-flow"}[p]
}

// lifecycleScenario: node under test `n` placed per `place`, answers from menu.
func lifecycleScenario(name string, n *spec, place int, menu func(h *H, c call) []answer) Scenario {
	return lifecycleScenarioRuns(name, n, place, menu, 1)
}

func lifecycleScenarioRuns(name string, n *spec, place int, menu func(h *H, c call) []answer, runs int) Scenario {
	return lifecycleScenarioOpt(name, n, place, menu, runs, false)
}

// withCancel: during the FIRST run the context may be cancelled from inside any
// callback (lazy choice).  C01 then still demands: once the exec phase has
// produced a result, post runs; the run returns exactly one of action / error.
// Later runs get a fresh context.
func lifecycleScenarioOpt(name string, n *spec, place int, menu func(h *H, c call) []answer, runs int, withCancel bool) Scenario {
	var h *H
	root := n
	var first *spec
	switch place {
	case placeOnlyInFlow:
		root = &spec{id: "flow", flow: &flowSpec{start: n, edges: map[*spec]map[flyt.Action]*spec{}}}
	case placeSecondInFlow:
		first = &spec{id: "first", kind: kBare, n: 1}
		root = &spec{id: "flow", flow: &flowSpec{start: first, edges: map[*spec]map[flyt.Action]*spec{first: {"go": n}}}}
		menu = fixedMenu(menu, first, "go")
	}
	body := func() {
		h = newH(root)
		h.menu = menu
		node := h.build(root)
		cancelled := false
		if withCancel {
			cctx, _ := core.WithCancel(ctxBackground())
			h.ctx = cctx
			h.onCall = func(hh *H, c call) {
				if !cancelled && hh.runNo == 0 && core.Choose(2) == 1 {
					cancelled = true
					core.Logf("cancel inside %s", c)
					cctx.CancelInline(context.Canceled)
				}
			}
		}
		a, err := flyt.Run(h.ctx, node, h.store)
		core.Logf("Run returned (%q, %v)", a, err)
		if cancelled {
			// a cancelled run may stop before a NEW ATTEMPT or a FURTHER NODE; it may not drop
			// the post phase of a result the exec phase has already produced
			if (a != "") == (err != nil) {
				core.Problem("run returned (%q, %v): want exactly one of action / error", a, err)
			}
			if s, _, done := simulate(h.root, h.store, h.answers); !done && s.next.ph == pPost {
				core.Problem("the exec phase produced a result (callbacks: %s) but post was not invoked after the cancellation; run returned (%q, %v)", h.traceString(), a, err)
			}
		} else {
			h.finish(a, err)
		}
		for r := 1; r < runs; r++ {
			// the SAME node objects are run again: nothing may carry over
			h.nextRun()
			if h.reinstall != nil {
				h.reinstall()
			}
			h.ctx = ctxBackground()
			a, err := flyt.Run(h.ctx, node, h.store)
			core.Logf("run %d returned (%q, %v)", r+1, a, err)
			h.finish(a, err)
		}
	}
	check := stdCheck(func() string {
		if h == nil {
			return "?"
		}
		return strings.Join(append(append([]string(nil), h.hist...), h.traceString()), " | ")
	})
	return Scenario{Name: name, Bound: 0, Body: body, Check: check}
}

func genC01(tier string) []Scenario {
	var out []Scenario
	maxN := 3
	if tier == "thorough" {
		maxN = 8
	}
	prepVals := []any{pvPtr, nil, 7, "s", pvMap}
	for kind := 0; kind < numKinds; kind++ {
		for n := -1; n <= maxN; n++ {
			if !kindExposesRetry(kind) && n != 1 {
				continue
			}
			for _, fb := range []bool{false, true} {
				if fb != (kind == kBaseFb || kind == kBareFb) && !kindIsFunc(kind) {
					continue
				}
				for place := 0; place < 3; place++ {
					pv := prepVals
					if n > 4 {
						pv = prepVals[:2] // long budgets: two payloads are enough to see threading
					}
					sp := &spec{id: "n", kind: kind, n: n, fb: fb}
					name := fmt.Sprintf("lifecycle kind=%s N=%d fallback=%v place=%s", kindNames[kind], n, fb, placeName(place))
					out = append(out, lifecycleScenario(name, sp, place, fullMenu(pv)))
					if n < 1 {
						continue // budgets below 1 (one attempt, never a post without an exec result): plain runs only
					}
					if (n <= 2 || (tier == "thorough" && n <= 5)) && place != placeOnlyInFlow {
						out = append(out, lifecycleScenarioRuns(name+" runs=2(same node object)", sp, place, fullMenu(pv[:2]), 2))
					}
					if (n <= 3 || (tier == "thorough" && n <= 6)) && (place == placeDirect || tier == "thorough") {
						out = append(out, lifecycleScenarioOpt(name+" cancel-inside-any-callback runs=2", sp, place, fullMenu(pv[:1]), 2, true))
					}
				}
			}
		}
	}
	// larger budgets (5 … 9 attempts: beyond any small fixed-size bookkeeping) for three kinds, with
	// one prep payload: every failure prefix followed by every kind of success, and all failing
	if tier != "thorough" {
		for _, kind := range []int{kBaseFb, kFuncRB, kBareRetry} {
			for _, n := range []int{5, 6, 9} {
				sp := &spec{id: "n", kind: kind, n: n, fb: kind != kBareRetry}
				name := fmt.Sprintf("lifecycle kind=%s N=%d fallback=%v place=%s (larger budgets)", kindNames[kind], n, sp.fb, placeName(placeDirect))
				out = append(out, lifecycleScenario(name, sp, placeDirect, fullMenu(prepVals[:1])))
			}
		}
	}
	// the prep value of successive runs of one node object is a slice over THE SAME backing array
	// with another length each time (a queue the caller appends to in place, or re-slices): exec and
	// post receive exactly the slice prep returned in THAT run
	for _, kind := range []int{kBase, kFuncR, kFuncA, kFuncRB} {
		sp := &spec{id: "n", kind: kind, n: 2, fb: kind == kFuncRB}
		name := fmt.Sprintf("lifecycle kind=%s N=2 place=%s runs=3(prep returns one backing array at lengths 2, 3, 1)", kindNames[kind], placeName(placeDirect))
		full := fullMenu(prepVals[:1])
		out = append(out, lifecycleScenarioRuns(name, sp, placeDirect, func(h *H, c call) []answer {
			if c.ph == pPrep {
				return []answer{{val: growBuf[:[]int{2, 3, 1}[h.runNo%3]]}}
			}
			m := full(h, c)
			if len(m) > 2 {
				m = m[:2]
			}
			return m
		}, 3))
	}
	// HUGE budgets (the largest int, 2^20): legal settings; the attempts actually made are few (the
	// third one always succeeds), nothing may depend on the size of the budget itself
	for _, kind := range []int{kBase, kBaseFb, kFuncRB, kFuncA, kBareRetry} {
		for _, n := range []int{math.MaxInt, 1 << 20} {
			for place := 0; place < 3; place += 2 {
				sp := &spec{id: "n", kind: kind, n: n, fb: kind == kBaseFb || kind == kFuncRB}
				name := fmt.Sprintf("lifecycle kind=%s N=%d fallback=%v place=%s (huge budget, third attempt succeeds)", kindNames[kind], n, sp.fb, placeName(place))
				full := fullMenu(prepVals[:1])
				out = append(out, lifecycleScenario(name, sp, place, func(h *H, c call) []answer {
					m := full(h, c)
					if c.ph == pExec && c.attempt >= 2 {
						return m[:1]
					}
					return m
				}))
			}
		}
	}
	// the last callback set for a phase is the one that runs: every function-style route with each
	// phase first given a callback of the other style
	for _, kind := range []int{kFuncR, kFuncA, kFuncRB, kFuncAB, kFuncMix} {
		for place := 0; place < 3; place += 2 {
			sp := &spec{id: "n", kind: kind, n: 2, fb: true, replaced: true}
			name := fmt.Sprintf("lifecycle callbacks-replaced kind=%s N=2 fallback=true place=%s", kindNames[kind], placeName(place))
			out = append(out, lifecycleScenario(name, sp, place, fullMenu(prepVals[:2])))
			if place == placeDirect && kind != kFuncR && kind != kFuncA {
				out = append(out, lifecycleScenarioRuns(name+" runs=3(callbacks re-set, in the other style, between the runs)", sp, place, fullMenu(prepVals[:1]), 3))
			}
		}
	}
	return out
}
