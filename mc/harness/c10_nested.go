package main

// C10 a flow used as a node behaves like a node.  Every hierarchical shape
// (including the same inner flow object placed at two positions) is run
// (1) against the reference hierarchical interpreter online, (2) again as the
// equivalent FLATTENED state machine (one real flat *Flow over fresh leaves,
// state = call path x leaf) fed with the same answers — visit order, store
// contents and outcome must coincide — and (3) every leaf at every depth must
// receive the identical *SharedStore.

import (
	"fmt"
	"reflect"
	"sort"
	"strings"

	flyt "github.com/mark3labs/flyt"
	"github.com/mark3labs/flyt/zzvrt/core"
)

func init() {
	register(&Property{ID: "C10", Instr: false, Gen: genC10})
}

// flatState: a leaf reached through a particular stack of enclosing flows.
type flatState struct {
	key  string
	leaf *spec   // original leaf
	path []*spec // enclosing flow-nodes, outermost first
	flat *spec   // the fresh leaf standing for this state in the flat machine
}

type flattener struct {
	states map[string]*flatState
	order  []*flatState
	alpha  []flyt.Action
}

func pathKey(path []*spec, leaf *spec) string {
	var sb strings.Builder
	for _, p := range path {
		fmt.Fprintf(&sb, "%p/", p)
	}
	fmt.Fprintf(&sb, "%p", leaf)
	return sb.String()
}

// enter: the first leaf executed when control reaches node n inside `path`.
func (f *flattener) enter(path []*spec, n *spec) *flatState {
	for n.flow != nil {
		if len(path) > 6 {
			return nil // recursion deeper than the scripts ever go
		}
		path = append(append([]*spec(nil), path...), n)
		n = n.flow.start
	}
	k := pathKey(path, n)
	if st, ok := f.states[k]; ok {
		return st
	}
	st := &flatState{key: k, leaf: n, path: path, flat: &spec{id: fmt.Sprintf("flat%d<%s>", len(f.order), n.id), kind: n.kind, n: n.n, fb: n.fb}}
	f.states[k] = st
	f.order = append(f.order, st)
	return st
}

// next: where the hierarchy goes after `st.leaf` answered action a (nil = the whole run ends).
func (f *flattener) next(st *flatState, a flyt.Action) *flatState {
	cur := st.leaf
	path := st.path
	for len(path) > 0 {
		fl := path[len(path)-1]
		if to, ok := fl.flow.edges[cur][a]; ok && to != nil {
			return f.enter(path, to)
		}
		// this flow ends (no connection, or connected to nil) presenting a to its parent
		cur = fl
		path = path[:len(path)-1]
	}
	return nil
}

func flatten(root *spec, alpha []flyt.Action) (*spec, map[*spec]*flatState) {
	f := &flattener{states: map[string]*flatState{}, alpha: alpha}
	start := f.enter(nil, root)
	flatRoot := &spec{id: "flat", flow: &flowSpec{start: start.flat, edges: map[*spec]map[flyt.Action]*spec{}}}
	for i := 0; i < len(f.order); i++ { // f.order grows while we go
		st := f.order[i]
		for _, a := range alpha {
			if nx := f.next(st, a); nx != nil {
				setEdge(flatRoot, st.flat, a, nx.flat)
			}
			if len(f.order) > 400 {
				break
			}
		}
	}
	back := map[*spec]*flatState{}
	for _, st := range f.order {
		back[st.flat] = st
	}
	return flatRoot, back
}

func nestedMenu(acts map[*spec][]flyt.Action) func(h *H, c call) []answer {
	return func(h *H, c call) []answer {
		switch c.ph {
		case pPrep, pExec, pFallback:
			return []answer{{val: nil}}
		}
		var m []answer
		if len(h.calls) > 3*8 {
			// horizon: shapes that place one flow object at two connected positions loop
			return []answer{{action: "zz"}}
		}
		for _, a := range acts[c.node] {
			if a == "again" && h.countAction("again") >= 2 {
				continue
			}
			m = append(m, answer{action: a})
		}
		for _, a := range h.answers {
			if a.err != nil {
				return m
			}
		}
		return append(m, answer{err: errSentinel})
	}
}

// innerFlows lists the flow specs nested (at any depth) inside root, once each.
func innerFlows(root *spec) []*spec {
	var out []*spec
	seen := map[*spec]bool{}
	var walk func(n *spec, top bool)
	walk = func(n *spec, top bool) {
		if n == nil || n.flow == nil || seen[n] {
			return
		}
		seen[n] = true
		if !top {
			out = append(out, n)
		}
		walk(n.flow.start, false)
		var froms []*spec
		for from := range n.flow.edges {
			froms = append(froms, from)
		}
		sort.Slice(froms, func(i, j int) bool { return froms[i].id < froms[j].id })
		for _, from := range froms {
			walk(from, false)
			for _, a := range shapeActions {
				walk(n.flow.edges[from][a], false)
			}
		}
	}
	walk(root, true)
	return out
}

// longLoopScenario: a parent that polls around a sub-flow `rounds` times (well beyond any small
// step or depth threshold) before leaving; single scripted path, nested vs flattened.
func longLoopScenario(rounds int) Scenario {
	var h *H
	body := func() {
		p := &spec{id: "P", kind: kLog, n: 1}
		q := &spec{id: "Q", kind: kLog, n: 1}
		done := &spec{id: "D", kind: kLog, n: 1}
		sub := &spec{id: "S", flow: &flowSpec{start: q, edges: map[*spec]map[flyt.Action]*spec{}}}
		root := &spec{id: "loop", flow: &flowSpec{start: p, edges: map[*spec]map[flyt.Action]*spec{}}}
		setEdge(root, p, "again", sub)
		setEdge(root, sub, "go", p)
		setEdge(root, p, "exit", done)
		h = newH(root)
		h.menu = func(hh *H, c call) []answer {
			if c.ph != pPost {
				return []answer{{val: nil}}
			}
			switch c.node {
			case p:
				if hh.visits[p] <= rounds {
					return []answer{{action: "again"}}
				}
				return []answer{{action: "exit"}}
			case q:
				return []answer{{action: "go"}}
			}
			return []answer{{action: "bdone"}}
		}
		h.maxCalls = 3*(2*rounds+4) + 10
		flatRoot, back := flatten(root, []flyt.Action{"again", "go", "exit", "bdone"})
		nestedRound(h, root, flatRoot, back)
	}
	return Scenario{Name: fmt.Sprintf("long-poll-loop rounds=%d", rounds), Body: body, Check: stdCheck(func() string { return "long" })}
}

const (
	modePlain = iota
	modeWarm
	modeReconnectInner
	modeTopDown // inner flows are handed to their parents before their own connections are made
)

func nestedScenario(name string, d *shapeDesc) Scenario { return nestedScenarioOpt(name, d, modePlain) }

// warm: every inner flow object is first run STANDALONE on another store (a
// non-initial state): nothing of that run may leak into the nested run.
func nestedScenarioOpt(name string, d *shapeDesc, mode int) Scenario {
	warm := mode == modeWarm
	var h *H
	var root, flatRoot *spec
	var back map[*spec]*flatState
	var menu func(h *H, c call) []answer
	body := func() {
		if root == nil || mode == modeReconnectInner { // the reconnect mode mutates the spec: rebuild it
			g := &shapeGen{leafKinds: []int{kLog}}
			root = g.build(d, "r")
			menu = nestedMenu(collectActions(root))
			flatRoot, back = flatten(root, append([]flyt.Action{flyt.DefaultAction, "zz"}, shapeActions[:5]...))
		}
		// (1)+(3): nested run against the reference interpreter
		h = newH(root)
		h.menu = menu
		h.topDown = mode == modeTopDown
		if warm {
			h.noRefCheck = true
			h.menu = func(hh *H, c call) []answer { return []answer{{val: nil, action: "zz"}} }
			h.build(root)
			for _, in := range innerFlows(root) {
				other := flyt.NewSharedStore()
				other.Set("foreign", true)
				if err := h.build(in).(*flyt.Flow).Run(h.ctx, other); err != nil {
					core.Problem("standalone run of inner flow %s failed: %v", in.id, err)
				}
				h.nextRun()
			}
			h.noRefCheck = false
			h.menu = menu
			h.hist = nil
		}
		nestedRound(h, root, flatRoot, back)
		if mode == modeReconnectInner {
			reconnectInnerAndRerun(h, root)
		}
	}
	return Scenario{Name: name, Body: body, Check: stdCheck(func() string {
		if h == nil {
			return "?"
		}
		return h.traceString()
	})}
}

// nestedRound: one nested run (checked online against the reference) followed by the
// flattened machine on the same answers; visit order, outcome and store log must coincide.
func nestedRound(h *H, root, flatRoot *spec, back map[*spec]*flatState) {
	a1, e1 := flyt.Run(h.ctx, h.build(root), h.store)
	core.Logf("nested run returned (%q, %v)", a1, e1)
	h.finish(a1, e1)
	// (2): the flattened machine, same answers
	h2 := newH(flatRoot)
	h2.maxCalls = h.maxCalls // the flattened run is as long as the nested one (long loops)
	h2.menu = func(hh *H, c call) []answer {
		i := len(hh.answers)
		if i >= len(h.answers) {
			core.Problem("flattened run makes callback #%d %s, the nested run made only %d", i, c, len(h.answers))
			return []answer{{val: nil, action: "zz"}}
		}
		return []answer{h.answers[i]}
	}
	a2, e2 := flyt.Run(h2.ctx, h2.build(flatRoot), h2.store)
	core.Logf("flattened run returned (%q, %v)", a2, e2)
	h2.finish(a2, e2)
	if len(h2.calls) != len(h.calls) {
		core.Problem("nested run made %d callbacks, flattened run %d (nested: %s)", len(h.calls), len(h2.calls), h.traceString())
	}
	for i := 0; i < len(h.calls) && i < len(h2.calls); i++ {
		n1, n2 := h.calls[i], h2.calls[i]
		if st := back[n2.node]; st == nil || st.leaf != n1.node || n1.ph != n2.ph {
			core.Problem("visit order differs at callback #%d: nested %s, flattened %s", i, n1, n2)
			break
		}
	}
	if a1 != a2 || (e1 == nil) != (e2 == nil) {
		core.Problem("nested run returned (%q, %v), flattened run (%q, %v)", a1, e1, a2, e2)
	}
	// store contents: the log written by the leaves, modulo the renaming of leaves
	l1, _ := h.store.Get("log")
	l2, _ := h2.store.Get("log")
	s1, _ := l1.([]string)
	s2, _ := l2.([]string)
	var s2orig []string
	for _, id := range s2 {
		s2orig = append(s2orig, id[strings.Index(id, "<")+1:len(id)-1])
	}
	if !reflect.DeepEqual(s1, s2orig) && !(len(s1) == 0 && len(s2orig) == 0) {
		core.Problem("store contents differ: nested log %v, flattened log %v", s1, s2orig)
	}
	if h.store.Len() != h2.store.Len() {
		core.Problem("store sizes differ: nested %d keys, flattened %d", h.store.Len(), h2.store.Len())
	}
}

// reconnectInnerAndRerun: after a complete run, ONLY an inner flow is re-connected (a new edge
// from its start node back to itself on a fresh action); the parent must see it on its next run.
func reconnectInnerAndRerun(h *H, root *spec) {
	ins := innerFlows(root)
	if len(ins) == 0 {
		return
	}
	in := ins[0]
	start := in.flow.start
	h.build(in).(*flyt.Flow).Connect(h.build(start), "k9", h.build(start))
	setEdge(in, start, "k9", start)
	acts := collectActions(root)
	base := nestedMenu(acts)
	lastLeaves := map[*spec]bool{}
	var mark func(n *spec, seen map[*spec]bool)
	mark = func(n *spec, seen map[*spec]bool) {
		if n == nil || seen[n] {
			return
		}
		seen[n] = true
		if n.flow == nil {
			lastLeaves[n] = true
			return
		}
		mark(n.flow.start, seen)
		for _, m := range n.flow.edges {
			for _, to := range m {
				mark(to, seen)
			}
		}
	}
	mark(start, map[*spec]bool{})
	h.nextRun()
	h.store = flyt.NewSharedStore()
	h.menu = func(hh *H, c call) []answer {
		m := base(hh, c)
		if c.ph == pPost && lastLeaves[c.node] && hh.countAction("k9") < 2 && len(hh.calls) <= 3*8 {
			m = append(m, answer{action: "k9"})
		}
		return m
	}
	flatRoot, back := flatten(root, append([]flyt.Action{flyt.DefaultAction, "zz", "k9"}, shapeActions[:5]...))
	nestedRound(h, root, flatRoot, back)
}

func genC10(tier string) []Scenario {
	var out []Scenario
	depth := 3
	if tier == "thorough" {
		depth = 4
	}
	for i, d := range enumShapes(depth, true) {
		if d.uses(shFlowRetry) {
			continue // a retrying flow is not a plain state machine: covered by C04
		}
		out = append(out, nestedScenario(fmt.Sprintf("nested-vs-flat shape#%d=%s", i, d), d))
		if d.slot >= 0 && d.inner.slot < 0 && !d.reuse && !d.uses(shSelfRec) && (tier == "thorough" || d.base != 4) {
			out = append(out, nestedScenarioOpt(fmt.Sprintf("nested-vs-flat reconnect-inner-then-rerun shape#%d=%s", i, d), d, modeReconnectInner))
		}
		if d.slot >= 0 && (tier == "thorough" || d.inner.slot < 0) {
			out = append(out, nestedScenarioOpt(fmt.Sprintf("nested-vs-flat after-standalone-runs shape#%d=%s", i, d), d, modeWarm))
		}
		if d.slot >= 0 && (tier == "thorough" || d.inner.slot < 0) {
			out = append(out, nestedScenarioOpt(fmt.Sprintf("nested-vs-flat top-down-wiring shape#%d=%s", i, d), d, modeTopDown))
		}
	}
	out = append(out, longLoopScenario(70))
	if tier == "thorough" {
		out = append(out, longLoopScenario(300))
	}
	return out
}
