package main

// C20 retry wait is honoured between attempts and is interruptible.  Virtual
// time: the clock advances only when every thread is blocked, so measured gaps
// are exact.  A canceller thread sleeps d after the end of attempt j and then
// cancels; d ranges over {0, w/2, w-1ns} (strictly inside the wait: strong
// oracle) and {w, w+1ns} (boundary: weak oracle only).

import (
	"context"
	"errors"
	"fmt"
	"time"

	flyt "github.com/mark3labs/flyt"
	"github.com/mark3labs/flyt/zzvrt/core"
)

func init() {
	register(&Property{ID: "C20", Instr: true, Gen: genC20})
}

type waitScn struct {
	kind    int // kBase, kFuncR, or -1 batch
	w       time.Duration
	n       int // budget
	items   int // batch: number of items
	c       int // batch concurrency
	cancelJ int // canceller waits for the end of the (cancelJ+1)-th exec callback overall; -1: no canceller
	d       time.Duration
	bound   int
	execDur time.Duration // every exec attempt takes this much virtual time
	stop    bool          // batch: stop-on-error mode
	stagger bool          // batch: item i's attempts take i*w/2 of virtual time (items are not in lock-step)
	inFlow  bool          // single node: run as the only node of a flow
	fb      bool          // a fallback that always recovers is configured (function-style node / batch)
	cause   bool          // the context is cancelled with a custom cause (context.Cause(ctx) != ctx.Err())
}

func (s waitScn) name() string {
	k := "batch"
	if s.kind >= 0 {
		k = kindNames[s.kind]
	}
	c := "none"
	if s.cancelJ >= 0 {
		c = fmt.Sprintf("after-attempt-%d+%v", s.cancelJ, s.d)
	}
	fbs := ""
	if s.fb {
		fbs = " recovering-fallback"
	}
	if s.cause {
		fbs += " cancelled-with-cause"
	}
	return fmt.Sprintf("wait kind=%s w=%v N=%d items=%d c=%d cancel=%s execDur=%v stop=%v stagger=%v inFlow=%v%s", k, s.w, s.n, s.items, s.c, c, s.execDur, s.stop, s.stagger, s.inFlow, fbs)
}

type attemptRec struct {
	item       int
	start, end int64
	failed     bool
}

func (s waitScn) scenario() Scenario {
	var label string
	body := func() {
		var recs []attemptRec    // appended by whichever thread runs exec; ordered by the scheduler
		var ended core.Cell[int] // number of exec callbacks that have returned
		var cancelAt core.Cell[int64]
		var cancelled core.Cell[bool]
		var runOver core.Cell[bool]
		cancelAt.Set(-1)
		var parent context.Context = context.Background()
		var stdCancel context.CancelCauseFunc
		if s.cause {
			parent, stdCancel = context.WithCancelCause(parent)
		}
		ctx, cancel0 := core.WithCancel(parent)
		cancel := func() {
			if stdCancel != nil {
				stdCancel(errCustomCause)
			}
			cancel0()
		}
		perItem := map[int]int{}
		exec := func(item int) (any, error) {
			k := perItem[item]
			perItem[item]++
			st := core.VNow()
			if cancelled.Get() {
				core.Logf("exec item %d attempt %d entered AFTER cancellation", item, k)
			}
			if s.execDur > 0 {
				core.Sleep(s.execDur) // a slow attempt: the wait is measured from its END
			}
			if s.stagger && item > 0 {
				core.Sleep(time.Duration(item) * s.w / 2)
			}
			fail := k < s.n && core.Choose(2) == 0 // default: fail (so that waits happen); alt: succeed
			if k >= s.n {
				fail = true // over-run: answered and counted
			}
			recs = append(recs, attemptRec{item: item, start: st, end: core.VNow(), failed: fail})
			core.Logf("exec item %d attempt %d start=%d fail=%v", item, k, st, fail)
			ended.Set(ended.Get() + 1)
			if fail {
				return nil, errTable[item][k%8]
			}
			return okVal(item), nil
		}
		if s.cancelJ >= 0 {
			core.Go("harness:canceller", func() {
				core.Block("await-attempt-end", func() bool { return ended.Peek() > s.cancelJ || runOver.Peek() })
				if runOver.Get() {
					return
				}
				ended.Get()
				core.Sleep(s.d)
				if runOver.Get() {
					return
				}
				cancelAt.Set(core.VNow())
				cancelled.Set(true)
				core.Logf("cancel at t=%d", core.VNow())
				cancel()
			})
		}
		runStart := core.VNow()
		var err error
		var postSlots []flyt.Result
		var lastCb int64 = -1
		switch {
		case s.kind >= 0:
			var node flyt.Node
			if s.kind == kBase {
				node = &waitNode{BaseNode: flyt.NewBaseNode(flyt.WithMaxRetries(s.n), flyt.WithWait(s.w)), exec: func() (any, error) { return exec(0) }, post: func() { lastCb = core.VNow() }}
			} else {
				nb := flyt.NewNode()
				if s.fb {
					// recovers from anything it is given: a cancelled wait must not reach it
					nb = nb.WithExecFallbackFunc(func(any, error) (any, error) { return "recovered", nil })
				}
				node = nb.WithMaxRetries(s.n).WithWait(s.w).
					WithExecFunc(func(context.Context, flyt.Result) (flyt.Result, error) {
						v, e := exec(0)
						if e != nil {
							return flyt.Result{}, e
						}
						return flyt.NewResult(v), nil
					}).
					WithPostFunc(func(context.Context, *flyt.SharedStore, flyt.Result, flyt.Result) (flyt.Action, error) {
						lastCb = core.VNow()
						return "done", nil
					})
			}
			if s.inFlow {
				err = flyt.NewFlow(flyt.NewFlow(node)).Run(ctx, flyt.NewSharedStore())
			} else {
				_, err = flyt.Run(ctx, node, flyt.NewSharedStore())
			}
		default:
			var bopts []any
			if s.fb {
				bopts = append(bopts, flyt.WithExecFallbackFunc(func(any, error) (any, error) { return "recovered", nil }))
			}
			b := flyt.NewBatchNode(bopts...).WithMaxRetries(s.n).WithWait(s.w).WithBatchConcurrency(s.c).WithBatchErrorHandling(!s.stop).
				WithPrepFunc(func(context.Context, *flyt.SharedStore) ([]flyt.Result, error) {
					var it []flyt.Result
					for i := 0; i < s.items; i++ {
						it = append(it, flyt.NewResult(100+i))
					}
					return it, nil
				}).
				WithExecFunc(func(_ context.Context, it flyt.Result) (flyt.Result, error) {
					v, e := exec(it.Value().(int) - 100)
					if e != nil {
						return flyt.Result{}, e
					}
					return flyt.NewResult(v), nil
				}).
				WithPostFunc(func(_ context.Context, _ *flyt.SharedStore, _, res []flyt.Result) (flyt.Action, error) {
					postSlots = res
					lastCb = core.VNow()
					return "done", nil
				})
			_, err = flyt.Run(ctx, b, flyt.NewSharedStore())
		}
		runEnd := core.VNow()
		runOver.Set(true)
		core.Logf("run returned %v at t=%d", err, runEnd)
		w := int64(s.w)
		// ---- (1) at least w between the end of a failed attempt and the next attempt of the same item
		last := map[int]*attemptRec{}
		first := map[int]bool{}
		for i := range recs {
			r := &recs[i]
			if p := last[r.item]; p != nil {
				if gap := r.start - p.end; gap < w {
					core.Problem("item %d: only %v between the end of a failed attempt and the next attempt, configured wait %v", r.item, time.Duration(gap), s.w)
				}
				if !p.failed {
					core.Problem("item %d: an attempt was made after a successful one", r.item)
				}
			} else {
				first[r.item] = true
				// ---- (2) no wait before the first attempt
				if s.kind >= 0 || s.c == 0 {
					expect := runStart
					if s.kind < 0 && r.item > 0 {
						expect = -1 // later sequential items start when the previous one ended: checked below
					}
					if expect >= 0 && r.start != expect {
						core.Problem("first attempt started %v after the run started: there must be no wait before the first attempt", time.Duration(r.start-runStart))
					}
				}
			}
			last[r.item] = r
		}
		if s.kind < 0 && s.c == 0 {
			// sequential batch: item i+1's first attempt starts exactly when item i is settled
			var prevEnd int64 = runStart
			seen := map[int]bool{}
			for i := range recs {
				r := &recs[i]
				if !seen[r.item] {
					seen[r.item] = true
					if r.start != prevEnd && cancelAt.Get() < 0 {
						core.Problem("item %d: first attempt started %v after the previous item was settled (no wait before a first attempt / after a last attempt)", r.item, time.Duration(r.start-prevEnd))
					}
				}
				prevEnd = r.end
			}
		}
		tc := cancelAt.Get()
		if tc < 0 {
			// ---- (3) never cancelled: no wait after the last attempt
			lastEnd := lastCb
			if len(recs) > 0 && recs[len(recs)-1].end > lastEnd {
				lastEnd = recs[len(recs)-1].end
			}
			if lastEnd >= 0 && runEnd != lastEnd {
				core.Problem("run returned %v after its last callback ended: there must be no wait after the last attempt", time.Duration(runEnd-lastEnd))
			}
			label = fmt.Sprintf("uncancelled attempts=%d", len(recs))
			return
		}
		// ---- cancelled while the run was in progress
		inside := false // some item was strictly inside its retry wait at tc
		lastBefore := map[int]*attemptRec{}
		countBefore := map[int]int{}
		for i := range recs {
			if recs[i].start <= tc && recs[i].end <= tc {
				lastBefore[recs[i].item] = &recs[i]
				countBefore[recs[i].item]++
			}
		}
		for item, p := range lastBefore {
			// the attempt failed, a further attempt was still due, and tc lies in [end, end+w)
			if p.failed && countBefore[item] < s.n && tc < p.end+w {
				inside = true
			}
		}
		after := 0
		for i := range recs {
			if recs[i].start > tc {
				after++
			}
		}
		strong := s.d < s.w
		label = fmt.Sprintf("cancelled inside=%v strong=%v after=%d err=%v", inside, strong, after, err != nil)
		if strong && inside {
			if runEnd != tc {
				core.Problem("cancellation arrived during the retry wait at t=%v but the run returned at t=%v: it must return promptly, not sleep out the remainder", time.Duration(tc), time.Duration(runEnd))
			}
			if after > 0 {
				core.Problem("%d exec attempt(s) started after the cancellation that arrived during the wait", after)
			}
			if s.kind >= 0 {
				if err == nil || !errors.Is(err, context.Canceled) {
					core.Problem("run interrupted during the wait returned %v, want an error matching context.Canceled", err)
				}
			} else {
				// batch: the interrupted item's slot carries the context error (or the run fails with it)
				if err != nil {
					if !errors.Is(err, context.Canceled) {
						core.Problem("batch interrupted during the wait returned %v", err)
					}
				} else {
					found := false
					for _, r := range postSlots {
						if r.IsError() && errors.Is(r.Error(), context.Canceled) {
							found = true
						}
					}
					if !found {
						core.Problem("batch interrupted during an item's wait: no result slot carries an error matching context.Canceled")
					}
				}
			}
		} else if err != nil && !errors.Is(err, context.Canceled) && !errors.Is(err, errTable[0][0]) {
			// weak oracle: a context error or the uncancelled outcome (which may be the exec error)
			isExecErr := false
			for i := range errTable {
				for _, e := range errTable[i] {
					if errors.Is(err, e) {
						isExecErr = true
					}
				}
			}
			if !isExecErr {
				core.Problem("run returned %v: neither a context error nor the uncancelled outcome", err)
			}
		}
		if runEnd > tc+w && strong {
			core.Problem("run kept going for %v after the cancellation", time.Duration(runEnd-tc))
		}
	}
	check := func(x *core.Execution) (string, []string) {
		var pr []string
		if x.Deadlock != "" {
			pr = append(pr, "deadlock: "+x.Deadlock)
		}
		if x.Panic != "" {
			pr = append(pr, x.Panic)
		}
		pr = append(pr, x.Races...)
		return label, pr
	}
	return Scenario{Name: s.name() + boundName(s.bound), Bound: s.bound, Body: body, Check: check}
}

type waitNode struct {
	*flyt.BaseNode
	exec func() (any, error)
	post func()
}

func (n *waitNode) Exec(context.Context, any) (any, error) { return n.exec() }
func (n *waitNode) Post(context.Context, *flyt.SharedStore, any, any) (flyt.Action, error) {
	n.post()
	return "done", nil
}

func genC20(tier string) []Scenario {
	var out []Scenario
	th := tier == "thorough"
	ws := []time.Duration{time.Millisecond, 50 * time.Millisecond, time.Hour}
	maxN := 3
	if th {
		maxN = 6
	}
	bd := 1
	if th {
		bd = unbounded
	}
	for _, kind := range []int{kBase, kFuncR} {
		for _, w := range ws {
			for n := 2; n <= maxN; n++ {
				out = append(out, waitScn{kind: kind, w: w, n: n, cancelJ: -1, bound: 0}.scenario())
				for j := 0; j < n; j++ {
					for _, d := range []time.Duration{0, w / 2, w - 1, w, w + 1} {
						if w == 50*time.Millisecond && kind == kFuncR && !th && d != w/2 {
							continue
						}
						out = append(out, waitScn{kind: kind, w: w, n: n, cancelJ: j, d: d, bound: bd}.scenario())
					}
				}
			}
		}
	}
	// slow attempts (each takes w or 3w of virtual time)
	for _, kind := range []int{kBase, kFuncR} {
		for _, w := range []time.Duration{time.Millisecond, time.Hour} {
			for _, dur := range []time.Duration{w, 3 * w} {
				out = append(out, waitScn{kind: kind, w: w, n: 3, cancelJ: -1, bound: 0, execDur: dur}.scenario())
				out = append(out, waitScn{kind: kind, w: w, n: 3, cancelJ: 0, d: w / 2, bound: 1, execDur: dur}.scenario())
				out = append(out, waitScn{kind: kind, w: w, n: 3, cancelJ: 0, d: 0, bound: 2, execDur: dur}.scenario())
				out = append(out, waitScn{kind: kind, w: w, n: 3, cancelJ: 1, d: 0, bound: 2, execDur: dur}.scenario())
			}
		}
	}
	for _, c := range []int{0, 2} {
		out = append(out, waitScn{kind: -1, w: time.Millisecond, n: 3, items: 1, c: c, cancelJ: 0, d: 0, bound: 2, execDur: 2 * time.Millisecond}.scenario())
		// more items than workers + queue, workers in a one-hour wait, then the cancellation
		if c > 0 {
			out = append(out, waitScn{kind: -1, w: time.Hour, n: 2, items: 3*c + 1, c: c, cancelJ: 0, d: time.Minute, bound: 0}.scenario())
		}
	}
	out = append(out, waitScn{kind: -1, w: time.Millisecond, n: 2, items: 2, c: 0, cancelJ: -1, bound: 0, execDur: 2 * time.Millisecond}.scenario())
	out = append(out, waitScn{kind: -1, w: time.Millisecond, n: 2, items: 2, c: 2, cancelJ: -1, bound: 0, execDur: 2 * time.Millisecond}.scenario())
	// a fallback that would recover from anything: a wait cut short by the cancellation still ends
	// the run (the item) with the context's error
	for _, w := range []time.Duration{time.Millisecond, time.Hour} {
		for j := 0; j < 2; j++ {
			out = append(out, waitScn{kind: kFuncR, w: w, n: 3, cancelJ: j, d: w / 2, bound: 1, fb: true}.scenario())
			out = append(out, waitScn{kind: kFuncR, w: w, n: 3, cancelJ: j, d: w / 2, bound: 1, fb: true, inFlow: true}.scenario())
			for _, c := range []int{0, 2} {
				out = append(out, waitScn{kind: -1, w: w, n: 3, items: 2, c: c, cancelJ: j, d: w / 2, bound: 1, fb: true}.scenario())
			}
		}
		out = append(out, waitScn{kind: kFuncR, w: w, n: 3, cancelJ: -1, bound: 0, fb: true}.scenario())
	}
	// long retry sequences (9 and 10 attempts): every wait of every attempt is there
	// a cancellation WITH A CUSTOM CAUSE during the wait: what is reported still matches ctx.Err()
	for _, w := range []time.Duration{time.Millisecond, time.Hour} {
		for _, kind := range []int{kBase, kFuncR} {
			out = append(out, waitScn{kind: kind, w: w, n: 3, cancelJ: 0, d: w / 2, bound: 1, cause: true}.scenario())
		}
		for _, c := range []int{0, 2} {
			out = append(out, waitScn{kind: -1, w: w, n: 3, items: 2, c: c, cancelJ: 0, d: w / 2, bound: 1, cause: true}.scenario())
		}
	}
	out = append(out, waitScn{kind: -1, w: time.Millisecond, n: 10, items: 1, c: 0, cancelJ: -1, bound: 0}.scenario())
	out = append(out, waitScn{kind: -1, w: time.Millisecond, n: 9, items: 2, c: 2, cancelJ: -1, bound: 0}.scenario())
	out = append(out, waitScn{kind: kFuncR, w: time.Millisecond, n: 10, cancelJ: -1, bound: 0}.scenario())
	out = append(out, waitScn{kind: kBase, w: time.Hour, n: 9, cancelJ: 7, d: time.Minute, bound: 0}.scenario())
	out = append(out, waitScn{kind: -1, w: time.Hour, n: 9, items: 1, c: 0, cancelJ: 7, d: time.Minute, bound: 0}.scenario())
	// the smallest wait there is: one nanosecond is a wait, not "no wait"
	out = append(out, waitScn{kind: kFuncR, w: 1, n: 3, cancelJ: -1, bound: 0}.scenario())
	out = append(out, waitScn{kind: kBase, w: 1, n: 3, cancelJ: -1, bound: 0}.scenario())
	out = append(out, waitScn{kind: -1, w: 1, n: 3, items: 2, c: 0, cancelJ: -1, bound: 0}.scenario())
	// the same node object again after a run that ended badly; runs nested inside a retried exec
	for _, w := range []time.Duration{time.Millisecond, time.Hour} {
		for _, form := range []string{"struct node", "function node", "batch node"} {
			out = append(out, rerunWaitScenario(form, w))
		}
		out = append(out, nestedRunWaitScenario(w, false), nestedRunWaitScenario(w, true))
	}
	// the retrying node inside (nested) flows: the context error must survive the flow boundaries
	for _, kind := range []int{kBase, kFuncR} {
		for _, w := range []time.Duration{time.Millisecond, time.Hour} {
			out = append(out, waitScn{kind: kind, w: w, n: 2, cancelJ: -1, bound: 0, inFlow: true}.scenario())
			out = append(out, waitScn{kind: kind, w: w, n: 2, cancelJ: 0, d: w / 2, bound: 1, inFlow: true}.scenario())
		}
	}
	// stop-on-error batches whose items are not in lock-step: an item that is mid-wait when a
	// neighbour fails for good still waits its full time (or is not retried at all)
	for _, w := range []time.Duration{time.Millisecond, time.Hour} {
		for _, n := range []int{2, 3} {
			out = append(out, waitScn{kind: -1, w: w, n: n, items: 2, c: 2, cancelJ: -1, bound: 1, stop: true, stagger: true}.scenario())
			out = append(out, waitScn{kind: -1, w: w, n: n, items: 3, c: 3, cancelJ: -1, bound: 0, stop: true, stagger: true}.scenario())
		}
	}
	// batch items, sequential and concurrent
	for _, c := range []int{0, 2} {
		for _, w := range []time.Duration{time.Millisecond, time.Hour} {
			for _, n := range []int{2, 3} {
				if n == 3 && c == 2 && !th {
					continue
				}
				out = append(out, waitScn{kind: -1, w: w, n: n, items: 2, c: c, cancelJ: -1, bound: 0}.scenario())
				for j := 0; j < n+1; j++ {
					for _, d := range []time.Duration{0, w / 2, w - 1, w} {
						out = append(out, waitScn{kind: -1, w: w, n: n, items: 2, c: c, cancelJ: j, d: d, bound: 1}.scenario())
					}
				}
			}
		}
	}
	return out
}

// rerunWaitScenario: the SAME node object is run again right after a run that ended badly —
// every attempt failed, or the run was cancelled while it sat in the retry wait.  The second run
// is a run like any other: no wait before its first attempt, w between its attempts, none after
// the last.  (builder = function-style node, else a struct node embedding *BaseNode; batch = the
// node is a one-item batch node.)
func rerunWaitScenario(form string, w time.Duration) Scenario {
	var label string
	body := func() {
		firstEnd := []string{"all attempts failed", "cancelled during the wait", "succeeded at once", "cancelled at the instant the wait expires"}[core.Choose(4)]
		label = form + " after a run that " + firstEnd
		var starts, ends []int64
		mode := "fail"
		exec := func() (any, error) {
			starts = append(starts, core.VNow())
			ends = append(ends, core.VNow())
			if mode == "ok" {
				return 1, nil
			}
			return nil, errTable[0][len(starts)%8]
		}
		var node flyt.Node
		switch form {
		case "struct node":
			node = &waitNode{BaseNode: flyt.NewBaseNode(flyt.WithMaxRetries(2), flyt.WithWait(w)), exec: exec, post: func() {}}
		case "function node":
			node = flyt.NewNode().WithMaxRetries(2).WithWait(w).WithExecFuncAny(func(context.Context, any) (any, error) { return exec() })
		default:
			node = flyt.NewBatchNode().WithMaxRetries(2).WithWait(w).
				WithPrepFunc(func(context.Context, *flyt.SharedStore) ([]flyt.Result, error) {
					return []flyt.Result{flyt.NewResult(0)}, nil
				}).
				WithExecFunc(func(context.Context, flyt.Result) (flyt.Result, error) {
					v, e := exec()
					if e != nil {
						return flyt.Result{}, e
					}
					return flyt.NewResult(v), nil
				})
		}
		// ---- the earlier run
		switch firstEnd {
		case "all attempts failed":
			flyt.Run(context.Background(), node, flyt.NewSharedStore())
		case "succeeded at once":
			mode = "ok"
			flyt.Run(context.Background(), node, flyt.NewSharedStore())
			mode = "fail"
		default:
			ctx, cancel := core.WithCancel(context.Background())
			d := w / 2 // the run is inside its first retry wait by then
			if firstEnd == "cancelled at the instant the wait expires" {
				d = w
			}
			core.Go("harness:canceller", func() {
				core.Sleep(d)
				cancel()
			})
			flyt.Run(ctx, node, flyt.NewSharedStore())
			core.WaitQuiescent()
		}
		// ---- the run under test, started at once
		starts, ends = nil, nil
		t0 := core.VNow()
		flyt.Run(context.Background(), node, flyt.NewSharedStore())
		t1 := core.VNow()
		if len(starts) != 2 {
			core.Problem("%s: the second run made %d attempts, budget 2", label, len(starts))
			return
		}
		if starts[0] != t0 {
			core.Problem("%s: the first attempt of the second run started %v after the run started: there must be no wait before the first attempt", label, time.Duration(starts[0]-t0))
		}
		if gap := time.Duration(starts[1] - ends[0]); gap < w {
			core.Problem("%s: only %v between the attempts of the second run, configured wait %v", label, gap, w)
		}
		if t1 != ends[1] {
			core.Problem("%s: the second run returned %v after its last attempt ended", label, time.Duration(t1-ends[1]))
		}
	}
	return Scenario{Name: fmt.Sprintf("wait rerun-of-the-same-node form=%s w=%v", form, w), Bound: 2, Body: body, Check: stdCheck(func() string { return label })}
}

// nestedRunWaitScenario: an outer node (budget 2, no wait of its own) whose exec drives an inner
// node (budget 2, wait w) with the context it was handed, as a node that runs a sub-flow per
// attempt does.  Every run of the inner node is a run like any other, whichever outer attempt
// started it: no wait before its first attempt, w before its second.
func nestedRunWaitScenario(w time.Duration, outerBatch bool) Scenario {
	var label string
	body := func() {
		type rec struct{ outer, start, end int64 }
		var inner []rec
		var innerRunStart []int64
		outerAttempt := 0
		innerNode := flyt.NewNode().WithMaxRetries(2).WithWait(w).WithExecFuncAny(func(context.Context, any) (any, error) {
			inner = append(inner, rec{int64(outerAttempt), core.VNow(), core.VNow()})
			return nil, errTable[0][len(inner)%8]
		})
		outerExec := func(ctx context.Context) error {
			outerAttempt++
			innerRunStart = append(innerRunStart, core.VNow())
			_, err := flyt.Run(ctx, flyt.NewFlow(innerNode), flyt.NewSharedStore())
			return err
		}
		var node flyt.Node
		if outerBatch {
			node = flyt.NewBatchNode().WithMaxRetries(2).
				WithPrepFunc(func(context.Context, *flyt.SharedStore) ([]flyt.Result, error) {
					return []flyt.Result{flyt.NewResult(0)}, nil
				}).
				WithExecFunc(func(ctx context.Context, _ flyt.Result) (flyt.Result, error) {
					return flyt.Result{}, outerExec(ctx)
				})
		} else {
			node = flyt.NewNode().WithMaxRetries(2).WithExecFuncAny(func(ctx context.Context, _ any) (any, error) { return nil, outerExec(ctx) })
		}
		flyt.Run(context.Background(), node, flyt.NewSharedStore())
		label = fmt.Sprintf("outer attempts=%d inner attempts=%d", outerAttempt, len(inner))
		if outerAttempt != 2 || len(inner) != 4 {
			core.Problem("outer exec ran %d times and the inner exec %d times, want 2 and 4", outerAttempt, len(inner))
			return
		}
		for o := 0; o < 2; o++ {
			a, b := inner[2*o], inner[2*o+1]
			if a.start != innerRunStart[o] {
				core.Problem("inner run started by outer attempt %d: its first attempt began %v after the run started: there must be no wait before a first attempt", o, time.Duration(a.start-innerRunStart[o]))
			}
			if gap := time.Duration(b.start - a.end); gap < w {
				core.Problem("inner run started by outer attempt %d: only %v between its attempts, configured wait %v", o, gap, w)
			}
		}
	}
	return Scenario{Name: fmt.Sprintf("wait nested-run-inside-a-retried-exec w=%v outer-batch=%v", w, outerBatch), Bound: 0, Body: body, Check: stdCheck(func() string { return label })}
}
