// Command harness runs the model-checking scenarios for one property.  It is
// built by flytmc with `go build -overlay` against the CURRENT /repo tree
// (instrumented or plain) and run as several shard processes.
package main

import (
	"encoding/json"
	"flag"
	"fmt"
	"hash/fnv"
	"os"
	"runtime"
	"runtime/pprof"
	"sort"
	"strconv"
	"strings"
	"time"

	"github.com/mark3labs/flyt/zzvrt/core"
)

// Scenario is one closed driver: a body to be explored exhaustively within
// Bound deviations, and an oracle evaluated on every execution.
type Scenario struct {
	Name  string // canonical, stable description (used for replay and known-finding signatures)
	Bound int
	Body  func()
	Check func(x *core.Execution) (outcome string, problems []string)
	// Direct, when set, replaces exploration: the scenario enumerates by itself
	// (explicit-state searches) and reports through the returned stats.
	Direct  func(deadline time.Time) *core.Stats
	MaxExec int64
	NoMerge bool // explore without state merging
}

type Property struct {
	ID    string
	Instr bool // needs the instrumented build
	Gen   func(tier string) []Scenario
}

var registry = map[string]*Property{}

func register(p *Property) { registry[p.ID] = p }

// ViolationOut is one reported violation.
type ViolationOut struct {
	Scenario string   `json:"scenario"`
	Tier     string   `json:"tier"`
	Msgs     []string `json:"msgs"`
	Sig      string   `json:"sig"` // canonical signature: what fails (first message, digits kept)
	Choices  []int    `json:"choices"`
	Cost     int      `json:"cost"`
	Log      []string `json:"log"`
	Replays  int      `json:"replays_identical"`
}

type ScenarioRow struct {
	Name       string           `json:"name"`
	Bound      int              `json:"bound"`
	Executions int64            `json:"executions"`
	ByCost     map[string]int64 `json:"by_cost"`
	Completed  bool             `json:"completed"`
	Outcomes   int              `json:"outcomes"`
}

type Report struct {
	Property         string           `json:"property"`
	Tier             string           `json:"tier"`
	Shard            int              `json:"shard"`
	NShards          int              `json:"nshards"`
	Scenarios        int              `json:"scenarios"`
	ScenariosTotal   int              `json:"scenarios_total"`
	Executions       int64            `json:"executions"`
	Transitions      int64            `json:"transitions"`
	TreeNodes        int64            `json:"tree_nodes"`
	States           int64            `json:"states"`
	Pruned           int64            `json:"pruned"`
	ByCost           map[string]int64 `json:"by_cost"`
	Outcomes         map[string]int64 `json:"outcomes"`
	DistinctOutcomes int              `json:"distinct_outcomes"`
	OutcomeHashes    []string         `json:"outcome_hashes,omitempty"`
	MaxDepth         int              `json:"max_depth"`
	MaxThreads       int              `json:"max_threads"`
	Deadlocks        int64            `json:"deadlocks"`
	Races            int64            `json:"races"`
	Panics           int64            `json:"panics"`
	Capped           bool             `json:"capped"`
	CapReasons       []string         `json:"cap_reasons"`
	Incomplete       []string         `json:"incomplete_scenarios"`
	Violations       []ViolationOut   `json:"violations"`
	Samples          []any            `json:"samples"`
	Rows             []ScenarioRow    `json:"rows,omitempty"`
	WallS            float64          `json:"wall_s"`
	Extra            map[string]int64 `json:"extra,omitempty"`
}

// extra counters any scenario may bump (merged into the report)
var extra = map[string]int64{}

var noMerge bool

var outcomeSet = map[uint64]struct{}{}

func hashOutcome(s string) uint64 {
	h := fnv.New64a()
	h.Write([]byte(s))
	return h.Sum64()
}

func main() {
	prop := flag.String("prop", "", "property id")
	tier := flag.String("tier", "quick", "quick|thorough")
	shard := flag.Int("shard", 0, "shard index")
	nshards := flag.Int("nshards", 1, "number of shards")
	budget := flag.Duration("budget", 60*time.Second, "wall-clock budget for this shard")
	out := flag.String("out", "", "write the JSON report here (default stdout)")
	scen := flag.String("scenario", "", "replay: scenario name")
	choices := flag.String("choices", "", "replay: comma separated choice sequence")
	list := flag.Bool("list", false, "list scenarios")
	flag.BoolVar(&noMerge, "nomerge", false, "disable state merging")
	claimDir := flag.String("claimdir", "", "dynamic work sharing: claim scenarios by creating files here")
	boundOv := flag.Int("bound", -1, "override the deviation bound of every scenario")
	cpuprof := flag.String("cpuprofile", "", "write a CPU profile")
	flag.Parse()
	if *cpuprof != "" {
		f, _ := os.Create(*cpuprof)
		pprof.StartCPUProfile(f)
		defer pprof.StopCPUProfile()
	}

	p := registry[*prop]
	if p == nil {
		fmt.Fprintf(os.Stderr, "unknown property %q\n", *prop)
		os.Exit(2)
	}
	if *scen != "" {
		os.Exit(replay(p, *scen, *choices))
	}
	scs := p.Gen(*tier)
	if *list {
		for i, s := range scs {
			fmt.Printf("%d\t%s\n", i, s.Name)
		}
		return
	}
	start := time.Now()
	deadline := start.Add(*budget)
	// watchdog: an execution of these tiny drivers takes microseconds; one that
	// makes no progress for 60 s of wall-clock time is a non-terminating run
	go func() {
		last, lastAt := int64(-1), time.Now()
		for {
			time.Sleep(2 * time.Second)
			cur := core.ExecutionsStarted()
			if cur != last {
				last, lastAt = cur, time.Now()
				continue
			}
			if time.Since(lastAt) > 60*time.Second {
				name := core.CurrentExploration()
				rep := &Report{Property: p.ID, Tier: *tier, Shard: *shard, NShards: *nshards, ScenariosTotal: len(scs), ByCost: map[string]int64{}, Outcomes: map[string]int64{},
					Capped: true, CapReasons: []string{"watchdog"}, Executions: cur,
					Violations: []ViolationOut{{Scenario: name, Tier: *tier, Msgs: []string{"an execution did not terminate (no progress for 60 s): livelock or unbounded loop in scenario " + name}, Sig: name + " :: non-termination"}}}
				b, _ := json.Marshal(rep)
				if *out != "" {
					os.WriteFile(*out, b, 0o644)
				} else {
					os.Stdout.Write(b)
				}
				os.Exit(0)
			}
		}
	}()
	rep := &Report{Property: p.ID, Tier: *tier, Shard: *shard, NShards: *nshards, ScenariosTotal: len(scs), ByCost: map[string]int64{}, Outcomes: map[string]int64{}}
	for i := range scs {
		if *claimDir != "" {
			f, err := os.OpenFile(fmt.Sprintf("%s/claim-%d", *claimDir, i), os.O_CREATE|os.O_EXCL|os.O_WRONLY, 0o644)
			if err != nil {
				continue // somebody else has it
			}
			f.Close()
		} else if i%*nshards != *shard {
			continue
		}
		sc := &scs[i]
		if *boundOv >= 0 {
			sc.Bound = *boundOv
		}
		if time.Now().After(deadline) {
			rep.Capped = true
			rep.CapReasons = appendUniq(rep.CapReasons, "time budget")
			rep.Incomplete = append(rep.Incomplete, sc.Name)
			continue
		}
		var st *core.Stats
		if sc.Direct != nil {
			st = runDirect(sc, deadline)
		} else {
			st = core.Explore(core.Options{Name: sc.Name, Bound: sc.Bound, Deadline: deadline, MaxExec: sc.MaxExec, Merge: !sc.NoMerge && !noMerge}, sc.Body, sc.Check)
		}
		rep.Scenarios++
		if st.ArriveMode {
			extra["scenarios_explored_in_arrive_mode"]++
		}
		rep.Executions += st.Executions
		rep.Transitions += st.Transitions
		rep.TreeNodes += st.TreeNodes
		rep.States += st.States
		rep.Pruned += st.Pruned
		for k, v := range st.ByCost {
			rep.ByCost[strconv.Itoa(k)] += v
		}
		for k, v := range st.Outcomes {
			h := hashOutcome(k)
			if _, seen := outcomeSet[h]; !seen {
				outcomeSet[h] = struct{}{}
				if len(rep.Outcomes) < 300 {
					rep.Outcomes[k] += v // a few written out as examples
				}
			} else if _, kept := rep.Outcomes[k]; kept {
				rep.Outcomes[k] += v
			}
		}
		if st.MaxDepth > rep.MaxDepth {
			rep.MaxDepth = st.MaxDepth
		}
		if st.MaxThreads > rep.MaxThreads {
			rep.MaxThreads = st.MaxThreads
		}
		rep.Deadlocks += st.Deadlocks
		rep.Races += st.Races
		rep.Panics += st.Panics
		if st.Capped {
			rep.Capped = true
			rep.CapReasons = appendUniq(rep.CapReasons, st.CapReason)
			rep.Incomplete = append(rep.Incomplete, sc.Name)
		}
		if len(rep.Samples) < 3 && st.SampleLog != nil && (len(rep.Samples) == 0 || i%7 == 3) {
			rep.Samples = append(rep.Samples, map[string]any{"scenario": sc.Name, "choices": st.SampleChoices, "trace": st.SampleLog})
		}
		if len(rep.Rows) < 400 {
			bc := map[string]int64{}
			for k, v := range st.ByCost {
				bc[strconv.Itoa(k)] = v
			}
			rep.Rows = append(rep.Rows, ScenarioRow{Name: sc.Name, Bound: sc.Bound, Executions: st.Executions, ByCost: bc, Completed: !st.Capped, Outcomes: len(st.Outcomes)})
		}
		for _, v := range st.Violations {
			if len(rep.Violations) >= 10 {
				break
			}
			vo := ViolationOut{Scenario: sc.Name, Tier: *tier, Msgs: v.Msgs, Sig: sigOf(sc.Name, v.Msgs), Choices: v.Choices, Cost: v.Cost, Log: v.Log}
			// determinism: the same choice sequence must reproduce the same observation 5 times
			if sc.Direct == nil {
				n, canon := confirm(sc, v)
				vo.Replays = n
				if n < 5 || canon == nil {
					core.InternalError("violation in %s does not replay deterministically (%d/5)", sc.Name, n)
				}
				vo.Msgs, vo.Log, vo.Choices = canon.Msgs, canon.Log, canon.Choices
				vo.Sig = sigOf(sc.Name, canon.Msgs)
			}
			rep.Violations = append(rep.Violations, vo)
		}
		if len(rep.Violations) >= 10 {
			rep.Capped = true
			rep.CapReasons = appendUniq(rep.CapReasons, "stopped after 10 violations")
			break
		}
	}
	rep.WallS = time.Since(start).Seconds()
	rep.Extra = extra
	rep.DistinctOutcomes = len(outcomeSet)
	if len(outcomeSet) <= 250000 {
		for h := range outcomeSet {
			rep.OutcomeHashes = append(rep.OutcomeHashes, strconv.FormatUint(h, 36))
		}
	}
	b, _ := json.Marshal(rep)
	if *out != "" {
		if err := os.WriteFile(*out, b, 0o644); err != nil {
			fmt.Fprintln(os.Stderr, err)
			os.Exit(2)
		}
	} else {
		os.Stdout.Write(b)
	}
}

// runDirect runs a self-enumerating scenario; a panic that escapes it (the library panicking
// where the scenario did not expect it) is a finding about the library, not a harness crash.
func runDirect(sc *Scenario, deadline time.Time) (st *core.Stats) {
	defer func() {
		if r := recover(); r != nil {
			buf := make([]byte, 4096)
			buf = buf[:runtime.Stack(buf, false)]
			st = &core.Stats{ByCost: map[int]int64{}, Outcomes: map[string]int64{"panic": 1}, Executions: 1, Capped: true, CapReason: "scenario abandoned after a panic"}
			st.Violations = []core.Violation{{Msgs: []string{fmt.Sprintf("panic: %v", r)}, Log: strings.Split(string(buf), "\n")}}
		}
	}()
	return sc.Direct(deadline)
}

func appendUniq(l []string, s string) []string {
	for _, x := range l {
		if x == s {
			return l
		}
	}
	return append(l, s)
}

// sigOf is the canonical "what fails" used to match known findings: the
// scenario name plus the first complaint.
func sigOf(name string, msgs []string) string {
	m := ""
	if len(msgs) > 0 {
		m = msgs[0]
	}
	return name + " :: " + m
}

// confirm re-executes a violating choice sequence without state merging (a
// pruned execution is completed this way): the first replay is the canonical
// record and must contain the original complaints; four more replays must be
// identical to it.  Returns the number of agreeing replays (5 = deterministic).
func confirm(sc *Scenario, v core.Violation) (int, *core.Violation) {
	var canon *core.Violation
	same := 0
	for i := 0; i < 5; i++ {
		st := core.Explore(core.Options{Bound: 1 << 30, Prefix: v.Choices, Once: true}, sc.Body, sc.Check)
		if len(st.Violations) != 1 {
			continue
		}
		r := st.Violations[0]
		if canon == nil {
			have := map[string]bool{}
			for _, m := range r.Msgs {
				have[m] = true
			}
			ok := true
			for _, m := range v.Msgs {
				if !have[m] {
					ok = false
				}
			}
			if !ok {
				continue
			}
			canon = &r
			same++
			continue
		}
		if strings.Join(r.Msgs, "\n") == strings.Join(canon.Msgs, "\n") && strings.Join(r.Log, "\n") == strings.Join(canon.Log, "\n") {
			same++
		}
	}
	return same, canon
}

func findScenario(p *Property, name string) *Scenario {
	if i := strings.Index(name, " ["); i >= 0 {
		// the bound suffix does not matter for replaying a fixed choice sequence
		base := name[:i]
		for _, tier := range []string{"quick", "thorough"} {
			scs := p.Gen(tier)
			for j := range scs {
				if strings.HasPrefix(scs[j].Name, base+" [") {
					return &scs[j]
				}
			}
		}
	}
	for _, tier := range []string{"quick", "thorough"} {
		scs := p.Gen(tier)
		for i := range scs {
			if scs[i].Name == name {
				return &scs[i]
			}
		}
	}
	return nil
}

func replay(p *Property, name, choices string) int {
	sc := findScenario(p, name)
	if sc == nil {
		fmt.Fprintf(os.Stderr, "scenario %q not found\n", name)
		return 2
	}
	if sc.Direct != nil {
		st := runDirect(sc, time.Now().Add(10*time.Minute))
		for _, v := range st.Violations {
			fmt.Printf("PROBLEM %s\n", strings.Join(v.Msgs, "; "))
		}
		if len(st.Violations) > 0 {
			return 1
		}
		fmt.Println("OK no problem on replay")
		return 0
	}
	var cs []int
	for _, f := range strings.Split(choices, ",") {
		f = strings.TrimSpace(f)
		if f == "" {
			continue
		}
		n, err := strconv.Atoi(f)
		if err != nil {
			fmt.Fprintln(os.Stderr, "bad choices:", err)
			return 2
		}
		cs = append(cs, n)
	}
	st := core.Explore(core.Options{Bound: 1 << 30, Prefix: cs, Once: true, Trace: true}, sc.Body, sc.Check)
	fmt.Printf("scenario: %s\nchoices: %v\n", name, cs)
	for _, l := range st.SampleLog {
		fmt.Println("  " + l)
	}
	ks := make([]string, 0)
	for k := range st.Outcomes {
		ks = append(ks, k)
	}
	sort.Strings(ks)
	fmt.Printf("outcome: %v\n", ks)
	if len(st.Violations) > 0 {
		for _, m := range st.Violations[0].Msgs {
			fmt.Printf("PROBLEM %s\n", m)
		}
		return 1
	}
	fmt.Println("OK no problem on replay")
	return 0
}
