package main

// C12 Worker pool: tasks run exactly once, Wait is a barrier, Close leaks nothing.
// Direct harness on the real flyt.WorkerPool under the controlled scheduler.

import (
	"fmt"
	"strings"
	"time"

	flyt "github.com/mark3labs/flyt"
	"github.com/mark3labs/flyt/zzvrt/core"
)

func init() {
	register(&Property{ID: "C12", Instr: true, Gen: genC12})
}

// poolProg: per submitter thread, a list of task kinds ('i' instant, 'y' yields
// mid-task).  The main thread joins the submitters, Waits, checks, optionally
// runs a second round, Waits, Closes, and waits for quiescence.
type poolScn struct {
	w        int
	progs    []string // one per submitter thread; "" = main submits itself
	round2   string   // tasks the main thread submits after the first Wait
	selfWait bool     // single submitter: submitter itself interleaves Wait after each Submit
	limit    bool     // C08: check that never more than max(w,1) tasks are in flight
	overlap  string   // tasks a second thread submits WHILE the main thread is inside Wait (a gated task of the main thread keeps the counter above zero)
}

func (p poolScn) name() string {
	n := fmt.Sprintf("pool w=%d progs=%s round2=%q selfwait=%v", p.w, strings.Join(p.progs, "|"), p.round2, p.selfWait)
	if p.overlap != "" {
		n += " submit-during-wait=" + p.overlap
	}
	return n
}

// poolObs: harness state shared between threads lives in Cells (events in the
// state key) or race-checked Vars.
type poolObs struct {
	started, finished []core.Cell[int]
	vars              []*core.Var[int]
	submitRet         []core.Cell[bool]
	workersSeen       int
	inflight          core.Cell[int]
	order             []int // outcome label only: +k task k started, -k finished
}

func (p poolScn) scenario(bound int) Scenario {
	var o *poolObs
	total := len(p.round2) + len(p.overlap)
	if p.overlap != "" {
		total++ // the gated task
	}
	for _, pr := range p.progs {
		total += len(pr)
	}
	body := func() {
		o = &poolObs{started: make([]core.Cell[int], total), finished: make([]core.Cell[int], total), submitRet: make([]core.Cell[bool], total)}
		for i := 0; i < total; i++ {
			o.vars = append(o.vars, core.NewVar(fmt.Sprintf("taskvar%d", i), 0))
		}
		before := core.NumThreads()
		pool := flyt.NewWorkerPool(p.w)
		o.workersSeen = core.NumThreads() - before
		mkTask := func(k int, kind byte) func() {
			return func() {
				o.started[k].Set(o.started[k].Get() + 1)
				core.Logf("task %d start", k)
				o.order = append(o.order, k+1)
				if p.limit {
					in := o.inflight.Get() + 1
					o.inflight.Set(in)
					lim := p.w
					if lim <= 0 {
						lim = 1
					}
					if in > lim {
						core.Problem("%d tasks in flight on a pool of %d worker(s)", in, p.w)
					}
					defer func() {
						if !core.Aborting() {
							o.inflight.Set(o.inflight.Get() - 1)
						}
					}()
				}
				if kind == 'y' {
					core.Yield()
				}
				if kind == 's' {
					core.Sleep(2 * time.Second) // a task that takes (virtual) time: the queue stays full meanwhile
				}
				o.vars[k].Store(k + 1)
				o.finished[k].Set(o.finished[k].Get() + 1)
				core.Logf("task %d end", k)
				o.order = append(o.order, -k-1)
			}
		}
		waitAndCheck := func(who string) {
			// tasks whose Submit had returned before this Wait was called
			must := make([]int, 0, total)
			for k := 0; k < total; k++ {
				if o.submitRet[k].Get() {
					must = append(must, k)
				}
			}
			core.Logf("%s Wait call", who)
			pool.Wait()
			core.Logf("%s Wait ret", who)
			for _, k := range must {
				if f := o.finished[k].Get(); f != 1 {
					core.Problem("Wait returned while task %d (submitted before the Wait) has finished %d times", k, f)
				}
				if v := o.vars[k].Load(); v != k+1 { // plain read: must be ordered after the task's write
					core.Problem("effect of task %d not visible after Wait (read %d)", k, v)
				}
			}
		}
		k := 0
		var ths []*core.Thread
		for j, pr := range p.progs {
			pr := pr
			base := k
			k += len(pr)
			run := func() {
				for i := 0; i < len(pr); i++ {
					id := base + i
					core.Logf("submit %d call", id)
					pool.Submit(mkTask(id, pr[i]))
					o.submitRet[id].Set(true)
					core.Logf("submit %d ret", id)
					if p.selfWait {
						waitAndCheck("submitter")
					}
				}
			}
			if len(p.progs) == 1 && p.selfWait {
				run() // the main thread is the only submitter and waiter
			} else {
				ths = append(ths, core.Go(fmt.Sprintf("submitter%d", j), run))
			}
		}
		for _, t := range ths {
			core.Join(t)
		}
		if p.overlap != "" {
			// Submit concurrent with Wait is legal while the counter is above zero: the main
			// thread's gated task stays unfinished until the other thread's Submits have returned
			var released core.Cell[bool]
			gid := k
			k++
			gate := func() {
				o.started[gid].Set(o.started[gid].Get() + 1)
				core.Logf("gated task %d start", gid)
				core.Block("gate", func() bool { return released.Peek() })
				released.Get()
				o.vars[gid].Store(gid + 1)
				o.finished[gid].Set(o.finished[gid].Get() + 1)
				core.Logf("gated task %d end", gid)
			}
			pool.Submit(gate)
			o.submitRet[gid].Set(true)
			base := k
			k += len(p.overlap)
			core.Go("harness:late-submitter", func() {
				for i := 0; i < len(p.overlap); i++ {
					pool.Submit(mkTask(base+i, p.overlap[i]))
					o.submitRet[base+i].Set(true)
				}
				released.Set(true)
			})
		}
		waitAndCheck("main")
		if p.overlap != "" {
			// a second Wait, after the late submitter is surely done, covers its tasks too
			core.WaitQuiescent()
			waitAndCheck("main-after-overlap")
		}
		for i := 0; i < len(p.round2); i++ {
			id := k + i
			pool.Submit(mkTask(id, p.round2[i]))
			o.submitRet[id].Set(true)
		}
		if len(p.round2) > 0 {
			waitAndCheck("main-round2")
		}
		pool.Close()
		core.Logf("closed")
		live := core.WaitQuiescent()
		if len(live) > 0 {
			core.Problem("after Wait+Close %d pool goroutine(s) never terminate: %s", len(live), strings.Join(live, ", "))
		}
	}
	check := func(x *core.Execution) (string, []string) {
		var pr []string
		if x.Deadlock != "" {
			pr = append(pr, "deadlock: "+x.Deadlock)
		}
		if x.Panic != "" {
			pr = append(pr, x.Panic)
		}
		pr = append(pr, x.Races...)
		if x.Horizon {
			return "horizon", nil
		}
		if o != nil {
			if x.Deadlock == "" && x.Panic == "" {
				for k := 0; k < total; k++ {
					if st, fi := o.started[k].Get(), o.finished[k].Get(); st != 1 || fi != 1 {
						pr = append(pr, fmt.Sprintf("task %d executed %d times (finished %d), want exactly once", k, st, fi))
					}
				}
				// (how many goroutines the pool starts, and when, is its own business: the limit and its
				// usability are judged by what runs together, in C08 and in the limit scenarios here)
			}
		}
		// outcome: the order in which tasks started and finished
		var sb strings.Builder
		if o != nil {
			for _, e := range o.order {
				fmt.Fprintf(&sb, "%d;", e)
			}
		}
		return sb.String(), pr
	}
	return Scenario{Name: p.name(), Bound: bound, Body: body, Check: check}
}

const unbounded = 1000 // deviation bound that no execution reaches: every interleaving

func boundName(b int) string {
	if b >= unbounded {
		return " [all interleavings]"
	}
	return fmt.Sprintf(" [preemptions<=%d]", b)
}

// poolHistoryScenario: ONE thread drives the pool through a history chosen step by step from
// {Wait, let everything submitted so far finish WITHOUT waiting, Submit an instant task, Submit a
// task that yields}: every such history up to the given length.  After each Wait everything
// submitted before it must have finished; at the end every task has run exactly once and nothing
// is left behind.  (Waits on an idle pool, tasks that finish while nobody waits, and rounds after
// such rounds are histories the other drivers never produce.)
func poolHistoryScenario(w, length, bound int) Scenario {
	return poolHistoryScenarioA(w, length, bound, "WQiy.")
}

// poolHistoryScenarioA: histories over the given alphabet — W: Wait, Q: let the pool go quiescent,
// i / y: submit a fresh task (immediate / yielding), s: submit THE SAME func value once more (a
// caller may well hand in one function many times: each submission is a task of its own), .: stop.
func poolHistoryScenarioA(w, length, bound int, alphabet string) Scenario {
	var label string
	body := func() {
		pool := flyt.NewWorkerPool(w)
		var sameRuns core.Cell[int]
		sameSubmitted := 0
		same := func() { sameRuns.Set(sameRuns.Get() + 1) }
		var started, finished [8]core.Cell[int]
		var vars []*core.Var[int]
		for i := 0; i < length; i++ {
			vars = append(vars, core.NewVar(fmt.Sprintf("taskvar%d", i), 0))
		}
		n := 0
		var hist []byte
		for step := 0; step < length; step++ {
			op := alphabet[core.Choose(len(alphabet))]
			if op == '.' {
				break
			}
			hist = append(hist, op)
			switch op {
			case 'W':
				core.Logf("Wait call")
				pool.Wait()
				core.Logf("Wait ret")
				for k := 0; k < n; k++ {
					if f := finished[k].Get(); f != 1 {
						core.Problem("history %s: Wait returned while task %d (submitted before it) has finished %d times", hist, k, f)
					}
					if v := vars[k].Load(); v != k+1 {
						core.Problem("history %s: effect of task %d not visible after Wait", hist, k)
					}
				}
				if r := sameRuns.Get(); r != sameSubmitted {
					core.Problem("history %s: the same func value was submitted %d times before this Wait but has run %d times", hist, sameSubmitted, r)
				}
			case 'Q':
				core.WaitQuiescent()
			case 's':
				sameSubmitted++
				pool.Submit(same)
			default:
				k, kind := n, op
				n++
				pool.Submit(func() {
					started[k].Set(started[k].Get() + 1)
					if kind == 'y' {
						core.Yield()
					}
					vars[k].Store(k + 1)
					finished[k].Set(finished[k].Get() + 1)
				})
			}
		}
		pool.Wait()
		for k := 0; k < n; k++ {
			if st, fi := started[k].Get(), finished[k].Get(); st != 1 || fi != 1 {
				core.Problem("history %s: after the final Wait task %d has started %d / finished %d times, want exactly once", hist, k, st, fi)
			}
		}
		if r := sameRuns.Get(); r != sameSubmitted {
			core.Problem("history %s: the same func value was submitted %d times but has run %d times after the final Wait", hist, sameSubmitted, r)
		}
		pool.Close()
		if live := core.WaitQuiescent(); len(live) > 0 {
			core.Problem("history %s: after Wait+Close %d pool goroutine(s) never terminate: %s", hist, len(live), strings.Join(live, ", "))
		}
		label = string(hist)
	}
	name := fmt.Sprintf("pool-history w=%d length<=%d", w, length)
	if alphabet != "WQiy." {
		name += " alphabet=" + alphabet
	}
	return Scenario{Name: name + boundName(bound), Bound: bound, Body: body, Check: stdCheck(func() string { return label })}
}

// poolOverlappingWaitsScenario: several Waits in progress at once.  A gated task keeps the pool
// busy (so that Submit concurrent with Wait is legal); two helper threads and finally the main
// thread each call Wait, with one more task submitted before each call; the gate opens at a moment
// the scheduler chooses.  Every Wait — whichever round it belongs to — may return only after every
// task submitted before it was called has finished.
func poolOverlappingWaitsScenario(w, bound int) Scenario {
	var label string
	body := func() {
		pool := flyt.NewWorkerPool(w)
		const n = 4 // task 0 is the gated one
		var finished, submitted [n]core.Cell[bool]
		var released core.Cell[bool]
		task := func(k int) func() {
			return func() {
				if k == 0 {
					core.Block("gate", func() bool { return released.Peek() })
					released.Get()
				}
				finished[k].Set(true)
			}
		}
		submit := func(k int) {
			pool.Submit(task(k))
			submitted[k].Set(true)
		}
		var returned core.Cell[int]
		wait := func(who string) {
			var must []int
			for k := 0; k < n; k++ {
				if submitted[k].Get() {
					must = append(must, k)
				}
			}
			pool.Wait()
			for _, k := range must {
				if !finished[k].Get() {
					core.Problem("%s: Wait returned while task %d, submitted before that Wait was called, has not finished", who, k)
				}
			}
			returned.Set(returned.Get() + 1)
		}
		submit(0)
		w1 := core.Go("waiter1", func() { wait("first waiter") })
		core.Yield() // (a free switch: the waiter may get into its Wait before the next Submit, or not)
		submit(1)
		w2 := core.Go("waiter2", func() { wait("second waiter") })
		core.Yield()
		submit(2)
		rel := core.Go("harness:releaser", func() { released.Set(true) })
		submit(3)
		wait("main")
		core.Join(w1)
		core.Join(w2)
		core.Join(rel)
		for k := 0; k < n; k++ {
			if !finished[k].Get() {
				core.Problem("task %d never ran", k)
			}
		}
		pool.Close()
		if live := core.WaitQuiescent(); len(live) > 0 {
			core.Problem("after Wait+Close %d pool goroutine(s) never terminate: %s", len(live), strings.Join(live, ", "))
		}
		label = fmt.Sprintf("waits returned=%d", returned.Get())
	}
	return Scenario{Name: fmt.Sprintf("pool overlapping waits (three rounds) w=%d", w) + boundName(bound), Bound: bound, Body: body, Check: stdCheck(func() string { return label })}
}

func genC12(tier string) []Scenario {
	var out []Scenario
	kinds := func(n int) []string { // all task-kind strings of length n
		res := []string{""}
		for i := 0; i < n; i++ {
			var nx []string
			for _, r := range res {
				nx = append(nx, r+"i", r+"y")
			}
			res = nx
		}
		return res
	}
	alt := func(n int) string { return strings.Repeat("iy", n)[:n] }
	thorough := tier == "thorough"
	for _, w := range []int{1, 2} {
		if thorough {
			out = append(out, poolHistoryScenario(w, 6, 2))
			out = append(out, poolOverlappingWaitsScenario(w, 3))
		} else {
			out = append(out, poolHistoryScenario(w, 5, 1))
			out = append(out, poolOverlappingWaitsScenario(w, 1))
		}
	}
	// the same func value submitted again and again, alone and next to fresh tasks
	for _, w := range []int{1, 2} {
		out = append(out, poolHistoryScenarioA(w, 5, 1, "Wsi."))
	}
	// larger pools (sizes a pool might treat differently from one, two or three workers), short histories
	// (every order in which the idle workers start up is explored: five workers is what fits)
	out = append(out, poolHistoryScenarioA(5, 3, 0, "Wi."))
	if thorough {
		out = append(out, poolHistoryScenarioA(6, 3, 0, "Wi."))
	}
	ws := []int{1, 2, 0, -1}
	if thorough {
		ws = []int{1, 2, 3, 0, -1}
	}
	var ps []poolScn
	// long runs of tasks through few workers (66 and 130 tasks: beyond any per-worker task count a
	// pool might keep), in one round and in two rounds on the same pool
	ps = append(ps, poolScn{w: 1, progs: []string{strings.Repeat("i", 66)}}, poolScn{w: 1, progs: []string{strings.Repeat("i", 40)}, round2: strings.Repeat("i", 26)})
	for _, w := range ws {
		eff := w
		if eff <= 0 {
			eff = 1
		}
		small := w <= 0 && !thorough // size<=0 shares the one-worker code path; fewer programs
		// --- one submitter (joined before Wait), up to 2w+3 tasks: beyond the 2w queue
		maxN := 2*eff + 3
		if eff >= 3 {
			maxN = 2*eff + 1
		}
		for n := 0; n <= maxN; n++ {
			var ks []string
			switch {
			case n <= 2 || (thorough && n <= 3):
				ks = kinds(n)
			default:
				ks = []string{strings.Repeat("i", n), strings.Repeat("y", n), alt(n)}
			}
			if small && n != 1 && n != 3 {
				continue
			}
			for _, pr := range ks {
				if !thorough && eff >= 2 && n >= 6 && strings.Count(pr, "y") == n {
					continue // all-yielding long programs on 2 workers: thorough tier only
				}
				ps = append(ps, poolScn{w: w, progs: []string{pr}})
			}
		}
		// --- the submitter itself Waits after every Submit (repeated Wait/Submit rounds)
		for n := 1; n <= 3; n++ {
			if (small && n > 1) || (!thorough && n > 2) {
				continue
			}
			for _, pr := range kinds(n) {
				ps = append(ps, poolScn{w: w, progs: []string{pr}, selfWait: true})
			}
		}
		// --- two submitters
		if !small {
			for _, a := range kinds(1) {
				for _, b := range kinds(1) {
					ps = append(ps, poolScn{w: w, progs: []string{a, b}})
				}
			}
			ps = append(ps, poolScn{w: w, progs: []string{"ii", "i"}}, poolScn{w: w, progs: []string{"iy", "y"}})
			if w == 1 || thorough {
				ps = append(ps, poolScn{w: w, progs: []string{"yy", "yy"}})
			}
			// queue overflow with two submitters
			ps = append(ps, poolScn{w: w, progs: []string{strings.Repeat("i", eff+1), strings.Repeat("y", eff+1)}})
		}
		// --- second round on the same pool
		for _, a := range kinds(1) {
			for _, b := range kinds(1) {
				if small && a != b {
					continue
				}
				ps = append(ps, poolScn{w: w, progs: []string{a}, round2: b})
			}
		}
		if thorough {
			ps = append(ps, poolScn{w: w, progs: []string{"iy"}, round2: "yi"}, poolScn{w: w, progs: []string{"i", "y"}, round2: "iy"})
		}
		// --- slow tasks: the submitter stays blocked on a full queue while time passes
		if !small {
			ps = append(ps, poolScn{w: w, progs: []string{strings.Repeat("s", 2*eff+2)}})
		}
		// --- Submit from another thread while the main thread is inside Wait
		if !small {
			for _, ov := range []string{"i", "y", "ii"} {
				if ov == "ii" && !thorough && eff > 1 {
					continue
				}
				ps = append(ps, poolScn{w: w, progs: []string{""}, overlap: ov})
			}
		}
	}
	bounds := []int{2}
	if thorough {
		bounds = []int{3, unbounded}
	}
	for _, b := range bounds {
		for _, p := range ps {
			b := b
			total := len(p.round2)
			for _, pr := range p.progs {
				total += len(pr)
			}
			if !thorough && total >= 5 {
				b = 1 // long programs: one preemption (plus every free switch) in the quick tier
			}
			if total >= 30 {
				b = 0 // very long programs: every free switch, no preemption
			}
			sc := p.scenario(b)
			sc.Name += boundName(b)
			out = append(out, sc)
		}
	}
	return out
}
