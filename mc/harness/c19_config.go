package main

// C19 configuration styles are equivalent; defaults and last-setting-wins.
// (a) explicit-state BFS over the COMPLETE graph of observable configurations
//     (getters + which function answers a probe call) for the plain and the
//     batch builder: a transition applies one more setting in option or
//     builder form; every state reached by a mixed path is compared with the
//     reference record (last setting wins, other parameters untouched) and
//     with the all-options and all-builder constructions of the same settings.
// (b) all raw setting sequences to a length.
// (c) behavioural probes under the scheduler: attempts on an always-failing
//     exec, virtual time between attempts, worker threads spawned, in-order
//     sequential execution, stop/continue, pool size <= 0 means one worker.

import (
	"context"
	"errors"
	"fmt"
	"math"
	"sort"
	"strings"
	"time"

	flyt "github.com/mark3labs/flyt"
	"github.com/mark3labs/flyt/zzvrt/core"
)

func init() {
	register(&Property{ID: "C19", Instr: true, Gen: genC19})
}

const (
	pRetries = iota
	pWait
	pConc
	pErrH
	pPrepF
	pExecF
	pPostF
	pFallbackF
	numParams
)

var paramNames = [...]string{"MaxRetries", "Wait", "BatchConcurrency", "BatchErrorHandling", "Prep", "Exec", "Post", "Fallback"}
var paramVals = [...]int{3, 2, 2, 2, 2, 4, 2, 2}

type cfgSetting struct {
	param, val int
	builder    bool
	raw        bool // option form only: passed as a plain func(*flyt.BaseNode) value instead of a named NodeOption
}

func (s cfgSetting) String() string {
	f := "opt"
	if s.builder {
		f = "builder"
	}
	if s.raw {
		f = "rawfunc-opt"
	}
	return fmt.Sprintf("%s=%d/%s", paramNames[s.param], s.val, f)
}

// cfgRec is the observable configuration.
type cfgRec struct {
	retries              int
	wait                 time.Duration
	conc                 int
	errh                 string
	prep, exec, post, fb string
}

func (r cfgRec) String() string {
	return fmt.Sprintf("retries=%d wait=%v conc=%d errh=%s prep=%s exec=%s post=%s fb=%s", r.retries, r.wait, r.conc, r.errh, r.prep, r.exec, r.post, r.fb)
}

func defaultRec() cfgRec {
	return cfgRec{retries: 1, wait: 0, conc: 0, errh: "continue", prep: "default", exec: "default", post: "default", fb: "default"}
}

var retryVals = []int{1, 3, 0} // 0: an explicit zero is a setting like any other (it means one attempt when run)
var waitVals = []time.Duration{0, 5 * time.Millisecond}
var concVals = []int{0, 2}
var errhVals = []bool{true, false}

func (r *cfgRec) apply(s cfgSetting) {
	switch s.param {
	case pRetries:
		r.retries = max(1, retryVals[s.val])
	case pWait:
		r.wait = waitVals[s.val]
	case pConc:
		r.conc = concVals[s.val]
	case pErrH:
		if errhVals[s.val] {
			r.errh = "continue"
		} else {
			r.errh = "stop"
		}
	case pPrepF:
		r.prep = []string{"prep-f", "prep-g"}[s.val]
	case pExecF:
		r.exec = []string{"exec-fR", "exec-gR", "exec-fA", "exec-gA"}[s.val]
	case pPostF:
		r.post = []string{"post-f", "post-g"}[s.val]
	case pFallbackF:
		r.fb = []string{"fb-f", "fb-g"}[s.val]
	}
}

// reference: options take effect at construction (in argument order), builder
// calls afterwards (in call order); the last setting of each parameter wins.
func refConfig(seq []cfgSetting) cfgRec {
	r := defaultRec()
	for _, s := range seq {
		if !s.builder {
			r.apply(s)
		}
	}
	for _, s := range seq {
		if s.builder {
			r.apply(s)
		}
	}
	return r
}

// effective order of a mixed sequence, expressed in one form only
func effective(seq []cfgSetting, builder bool) []cfgSetting {
	var out []cfgSetting
	for _, s := range seq {
		if !s.builder {
			out = append(out, cfgSetting{param: s.param, val: s.val, builder: builder, raw: s.raw && !builder})
		}
	}
	for _, s := range seq {
		if s.builder {
			out = append(out, cfgSetting{param: s.param, val: s.val, builder: builder})
		}
	}
	return out
}

func markPrep(tag string) func(context.Context, *flyt.SharedStore) (flyt.Result, error) {
	return func(context.Context, *flyt.SharedStore) (flyt.Result, error) { return flyt.NewResult(tag), nil }
}
func markExecR(tag string) func(context.Context, flyt.Result) (flyt.Result, error) {
	return func(context.Context, flyt.Result) (flyt.Result, error) { return flyt.NewResult(tag), nil }
}
func markExecA(tag string) func(context.Context, any) (any, error) {
	return func(context.Context, any) (any, error) { return tag, nil }
}
func markPost(tag string) func(context.Context, *flyt.SharedStore, flyt.Result, flyt.Result) (flyt.Action, error) {
	return func(context.Context, *flyt.SharedStore, flyt.Result, flyt.Result) (flyt.Action, error) {
		return flyt.Action(tag), nil
	}
}
func markFb(tag string) func(any, error) (any, error) {
	return func(any, error) (any, error) { return tag, nil }
}

// baseOption builds the option value for a BaseNode parameter, either as the named NodeOption or
// as a hand-written func(*flyt.BaseNode) preset (both are accepted by the constructors).
func baseOption(s cfgSetting) any {
	var o flyt.NodeOption
	switch s.param {
	case pRetries:
		o = flyt.WithMaxRetries(retryVals[s.val])
	case pWait:
		o = flyt.WithWait(waitVals[s.val])
	case pConc:
		o = flyt.WithBatchConcurrency(concVals[s.val])
	default:
		o = flyt.WithBatchErrorHandling(errhVals[s.val])
	}
	if s.raw {
		return func(n *flyt.BaseNode) { o(n) }
	}
	return o
}

type cfgNode interface {
	flyt.Node
	GetMaxRetries() int
	GetWait() time.Duration
	GetBatchConcurrency() int
	GetBatchErrorHandling() string
	ExecFallback(any, error) (any, error)
}

// buildPlain constructs a plain node from a setting sequence.
func buildPlain(seq []cfgSetting, shuffleOpts bool) cfgNode {
	var base, custom []any
	for _, s := range seq {
		if s.builder {
			continue
		}
		switch s.param {
		case pRetries, pWait, pConc, pErrH:
			base = append(base, baseOption(s))
		case pPrepF:
			custom = append(custom, flyt.WithPrepFunc(markPrep([]string{"prep-f", "prep-g"}[s.val])))
		case pExecF:
			switch s.val {
			case 0:
				custom = append(custom, flyt.WithExecFunc(markExecR("exec-fR")))
			case 1:
				custom = append(custom, flyt.WithExecFunc(markExecR("exec-gR")))
			case 2:
				custom = append(custom, flyt.WithExecFuncAny(markExecA("exec-fA")))
			default:
				custom = append(custom, flyt.WithExecFuncAny(markExecA("exec-gA")))
			}
		case pPostF:
			custom = append(custom, flyt.WithPostFunc(markPost([]string{"post-f", "post-g"}[s.val])))
		case pFallbackF:
			custom = append(custom, flyt.WithExecFallbackFunc(markFb([]string{"fb-f", "fb-g"}[s.val])))
		}
	}
	// "constructor argument, in any position": function options before or after the
	// numeric ones (their relative order within each group is the sequence order)
	var opts []any
	if shuffleOpts {
		opts = append(append(opts, custom...), base...)
	} else {
		opts = append(append(opts, base...), custom...)
	}
	b := flyt.NewNode(opts...)
	for _, s := range seq {
		if !s.builder {
			continue
		}
		switch s.param {
		case pRetries:
			b = b.WithMaxRetries(retryVals[s.val])
		case pWait:
			b = b.WithWait(waitVals[s.val])
		case pConc:
			b = b.WithBatchConcurrency(concVals[s.val])
		case pErrH:
			b = b.WithBatchErrorHandling(errhVals[s.val])
		case pPrepF:
			b = b.WithPrepFunc(markPrep([]string{"prep-f", "prep-g"}[s.val]))
		case pExecF:
			switch s.val {
			case 0:
				b = b.WithExecFunc(markExecR("exec-fR"))
			case 1:
				b = b.WithExecFunc(markExecR("exec-gR"))
			case 2:
				b = b.WithExecFuncAny(markExecA("exec-fA"))
			default:
				b = b.WithExecFuncAny(markExecA("exec-gA"))
			}
		case pPostF:
			b = b.WithPostFunc(markPost([]string{"post-f", "post-g"}[s.val]))
		case pFallbackF:
			b = b.WithExecFallbackFunc(markFb([]string{"fb-f", "fb-g"}[s.val]))
		}
	}
	return b
}

// buildBatch constructs a batch node; only the settings that exist in both
// forms for the batch builder are used (retries, wait, concurrency, error
// handling, exec function).
func buildBatch(seq []cfgSetting, shuffleOpts bool) cfgNode {
	var base, custom []any
	for _, s := range seq {
		if s.builder {
			continue
		}
		switch s.param {
		case pRetries, pWait, pConc, pErrH:
			base = append(base, baseOption(s))
		case pExecF:
			switch s.val {
			case 0:
				custom = append(custom, flyt.WithExecFunc(markExecR("exec-fR")))
			case 1:
				custom = append(custom, flyt.WithExecFunc(markExecR("exec-gR")))
			case 2:
				custom = append(custom, flyt.WithExecFuncAny(markExecA("exec-fA")))
			default:
				custom = append(custom, flyt.WithExecFuncAny(markExecA("exec-gA")))
			}
		}
	}
	var opts []any
	if shuffleOpts {
		opts = append(append(opts, custom...), base...)
	} else {
		opts = append(append(opts, base...), custom...)
	}
	b := flyt.NewBatchNode(opts...)
	for _, s := range seq {
		if !s.builder {
			continue
		}
		switch s.param {
		case pRetries:
			b = b.WithMaxRetries(retryVals[s.val])
		case pWait:
			b = b.WithWait(waitVals[s.val])
		case pConc:
			b = b.WithBatchConcurrency(concVals[s.val])
		case pErrH:
			b = b.WithBatchErrorHandling(errhVals[s.val])
		case pExecF:
			switch s.val {
			case 0:
				b = b.WithExecFunc(markExecR("exec-fR"))
			case 1:
				b = b.WithExecFunc(markExecR("exec-gR"))
			case 2:
				b = b.WithExecFuncAny(markExecA("exec-fA"))
			default:
				b = b.WithExecFuncAny(markExecA("exec-gA"))
			}
		}
	}
	return b
}

func observeCfg(n cfgNode, batch bool) cfgRec {
	// a budget below 1 means one attempt: whether the getter reports what was set (0) or what it
	// means (1) is the library's choice, so both sides are compared as what they mean
	r := cfgRec{retries: max(1, n.GetMaxRetries()), wait: n.GetWait(), conc: n.GetBatchConcurrency(), errh: n.GetBatchErrorHandling(), prep: "default", exec: "default", post: "default", fb: "default"}
	ctx := context.Background()
	st := flyt.NewSharedStore()
	var in any = "in"
	if batch {
		in = flyt.NewResult("in")
	}
	if v, err := n.Exec(ctx, in); err == nil {
		if s, ok := v.(string); ok {
			r.exec = s
		}
	}
	if !batch {
		if v, err := n.Prep(ctx, st); err == nil {
			if s, ok := v.(string); ok {
				r.prep = s
			}
		}
		if a, err := n.Post(ctx, st, nil, nil); err == nil && a != flyt.DefaultAction {
			r.post = string(a)
		}
		sentinel := errors.New("x")
		if v, err := n.ExecFallback(nil, sentinel); err == nil {
			if s, ok := v.(string); ok {
				r.fb = s
			}
		}
	}
	return r
}

func cfgAlphabet(batch bool) []cfgSetting {
	var out []cfgSetting
	for p := 0; p < numParams; p++ {
		if batch && (p == pPrepF || p == pPostF || p == pFallbackF) {
			continue
		}
		for v := 0; v < paramVals[p]; v++ {
			for _, b := range []bool{false, true} {
				out = append(out, cfgSetting{param: p, val: v, builder: b})
			}
			if p <= pErrH {
				out = append(out, cfgSetting{param: p, val: v, raw: true})
			}
		}
	}
	return out
}

func seqString(seq []cfgSetting) string {
	var sb []string
	for _, s := range seq {
		sb = append(sb, s.String())
	}
	return strings.Join(sb, " ")
}

// checkSeq builds the node for seq in all forms and compares with the reference.
func checkSeq(seq []cfgSetting, batch bool) (cfgRec, []string) {
	build := buildPlain
	if batch {
		build = buildBatch
	}
	var pr []string
	want := refConfig(seq)
	got := observeCfg(build(seq, false), batch)
	if got != want {
		pr = append(pr, fmt.Sprintf("[%s] configuration is {%s}, last-setting-wins reference says {%s}", seqString(seq), got, want))
	}
	if g2 := observeCfg(build(seq, true), batch); g2 != got {
		pr = append(pr, fmt.Sprintf("[%s] option position matters: function options first gives {%s}, last gives {%s}", seqString(seq), g2, got))
	}
	if gO := observeCfg(build(effective(seq, false), false), batch); gO != got {
		pr = append(pr, fmt.Sprintf("[%s] all-options construction gives {%s}, mixed construction {%s}", seqString(seq), gO, got))
	}
	if gB := observeCfg(build(effective(seq, true), false), batch); gB != got {
		pr = append(pr, fmt.Sprintf("[%s] all-builder construction gives {%s}, mixed construction {%s}", seqString(seq), gB, got))
	}
	return got, pr
}

func bfsConfig(batch bool) func(deadline time.Time) *core.Stats {
	return func(deadline time.Time) *core.Stats {
		st := &core.Stats{ByCost: map[int]int64{}, Outcomes: map[string]int64{}}
		alpha := cfgAlphabet(batch)
		seen := map[cfgRec]bool{}
		init, pr := checkSeq(nil, batch)
		if len(pr) > 0 {
			st.Violations = append(st.Violations, core.Violation{Msgs: pr})
		}
		if init != defaultRec() {
			st.Violations = append(st.Violations, core.Violation{Msgs: []string{fmt.Sprintf("unconfigured node: {%s}, documented defaults {%s}", init, defaultRec())}})
		}
		seen[init] = true
		frontier := [][]cfgSetting{nil}
		for len(frontier) > 0 {
			path := frontier[0]
			frontier = frontier[1:]
			for _, s := range alpha {
				seq := append(append([]cfgSetting(nil), path...), s)
				got, pr := checkSeq(seq, batch)
				st.Executions += 4
				st.Transitions += int64(4 * len(seq))
				st.Outcomes[got.String()]++
				if len(pr) > 0 && len(st.Violations) < 10 {
					st.Violations = append(st.Violations, core.Violation{Msgs: pr, Log: []string{seqString(seq)}})
				}
				if !seen[got] {
					seen[got] = true
					frontier = append(frontier, seq)
					if len(seq) > st.MaxDepth {
						st.MaxDepth = len(seq)
					}
				}
			}
			if time.Now().After(deadline) {
				st.Capped, st.CapReason = true, "time budget"
				break
			}
		}
		st.States, st.TreeNodes = int64(len(seen)), int64(len(seen))
		st.ByCost[0] = st.Executions
		st.SampleLog = []string{fmt.Sprintf("BFS over observable configurations (batch=%v): %d states, alphabet %d settings, max shortest-path depth %d", batch, len(seen), len(alpha), st.MaxDepth)}
		return st
	}
}

func genC19(tier string) []Scenario {
	var out []Scenario
	out = append(out, Scenario{Name: "config-bfs plain builder: complete graph of observable configurations", Direct: bfsConfig(false)})
	out = append(out, Scenario{Name: "config-bfs batch builder: complete graph of observable configurations", Direct: bfsConfig(true)})
	// raw sequences
	rawLen := 3
	if tier == "thorough" {
		rawLen = 5
	}
	for _, batch := range []bool{false, true} {
		alpha := cfgAlphabet(batch)
		for first := range alpha {
			first, batch, alpha := first, batch, alpha
			var last string
			body := func() {
				n := 1 + core.Choose(rawLen)
				seq := []cfgSetting{alpha[first]}
				for i := 1; i < n; i++ {
					seq = append(seq, alpha[core.Choose(len(alpha))])
				}
				got, pr := checkSeq(seq, batch)
				last = got.String()
				for _, p := range pr {
					core.Problem("%s", p)
				}
			}
			out = append(out, Scenario{Name: fmt.Sprintf("config-raw batch=%v maxlen=%d first=%s", batch, rawLen, alpha[first]), Body: body, Check: stdCheck(func() string { return last })})
		}
	}
	out = append(out, probeScenarios()...)
	out = append(out, Scenario{Name: "config value sweep: every form reports (and a second form agrees on) small, large and negative values", Direct: configValueSweep})
	return out
}

// configValueSweep: the four ways of setting a number — constructor option, option function
// applied to the embedded BaseNode later, builder method of the plain builder, builder method of the
// batch builder — agree on what the getter reports, for values far outside the small ones as well
// (a cap, a clamp or a wrap-around in ONE of the forms makes them differ).
func configValueSweep(deadline time.Time) *core.Stats {
	st := &core.Stats{ByCost: map[int]int64{}, Outcomes: map[string]int64{}}
	complain := func(msg string) {
		if len(st.Violations) < 10 {
			st.Violations = append(st.Violations, core.Violation{Msgs: []string{msg}, Log: []string{msg}})
		}
	}
	ints := []int{-1 << 31, -5, -1, 0, 1, 2, 3, 7, 64, 255, 256, 257, 300, 1000, 4096, 65535, 65536, 1 << 20, 1<<31 - 1, 1 << 40, math.MaxInt}
	durs := []time.Duration{-time.Second, -1, 0, 1, time.Microsecond, time.Millisecond, time.Minute, 24 * time.Hour, 1 << 62}
	for _, what := range []string{"MaxRetries", "BatchConcurrency"} {
		for _, v := range ints {
			opt := flyt.WithMaxRetries(v)
			if what == "BatchConcurrency" {
				opt = flyt.WithBatchConcurrency(v)
			}
			got := map[string]int{}
			read := func(n interface {
				GetMaxRetries() int
				GetBatchConcurrency() int
			}) int {
				if what == "MaxRetries" {
					return n.GetMaxRetries()
				}
				return n.GetBatchConcurrency()
			}
			got["NewNode(option)"] = read(flyt.NewNode(opt))
			got["NewBatchNode(option)"] = read(flyt.NewBatchNode(opt))
			got["NewBatchNode(small option, option)"] = read(flyt.NewBatchNode(flyt.WithMaxRetries(2), flyt.WithBatchConcurrency(2), opt))
			nb := flyt.NewNode()
			opt(nb.BaseNode)
			got["option applied to NewNode().BaseNode"] = read(nb)
			bb := flyt.NewBatchNode()
			opt(bb.BaseNode)
			got["option applied to NewBatchNode().BaseNode"] = read(bb)
			if what == "MaxRetries" {
				got["NewNode().WithMaxRetries"] = read(flyt.NewNode().WithMaxRetries(v))
				got["NewBatchNode().WithMaxRetries"] = read(flyt.NewBatchNode().WithMaxRetries(v))
			} else {
				got["NewNode().WithBatchConcurrency"] = read(flyt.NewNode().WithBatchConcurrency(v))
				got["NewBatchNode().WithBatchConcurrency"] = read(flyt.NewBatchNode().WithBatchConcurrency(v))
			}
			for _, k := range sortedKeys(got) {
				if got[k] != v {
					complain(fmt.Sprintf("%s set to %d by %s: the getter reports %d (other forms: %v)", what, v, k, got[k], got))
					break
				}
			}
			st.Executions++
			st.Transitions += int64(len(got))
			st.Outcomes[fmt.Sprintf("%s=%d", what, v)]++
		}
	}
	for _, d := range durs {
		got := map[string]time.Duration{
			"NewNode(option)":              flyt.NewNode(flyt.WithWait(d)).GetWait(),
			"NewBatchNode(option)":         flyt.NewBatchNode(flyt.WithWait(d)).GetWait(),
			"NewNode().WithWait":           flyt.NewNode().WithWait(d).GetWait(),
			"NewBatchNode().WithWait":      flyt.NewBatchNode().WithWait(d).GetWait(),
			"NewBaseNode(option)":          flyt.NewBaseNode(flyt.WithWait(d)).GetWait(),
			"NewNode(1ms option).WithWait": flyt.NewNode(flyt.WithWait(time.Millisecond)).WithWait(d).GetWait(),
			"NewBatchNode(option, option)": flyt.NewBatchNode(flyt.WithWait(time.Millisecond), flyt.WithWait(d)).GetWait(),
		}
		for _, k := range sortedKeys(got) {
			if g := got[k]; g != d {
				complain(fmt.Sprintf("Wait set to %v by %s: the getter reports %v", d, k, g))
				break
			}
		}
		st.Executions++
		st.Transitions += int64(len(got))
		st.Outcomes[fmt.Sprintf("Wait=%v", d)]++
	}
	st.TreeNodes = int64(2*len(ints) + len(durs))
	st.ByCost[0] = st.Executions
	st.SampleLog = []string{"BatchConcurrency 300 by option and by builder method: both getters report 300"}
	return st
}

func sortedKeys[V any](m map[string]V) []string {
	ks := make([]string, 0, len(m))
	for k := range m {
		ks = append(ks, k)
	}
	sort.Strings(ks)
	return ks
}

// ---------------------------------------------------------------- behavioural probes

func probeScenarios() []Scenario {
	var out []Scenario
	// (1) attempts and wait, plain and batch, all form mixes
	for _, batch := range []bool{false, true} {
		batch := batch
		var label string
		body := func() {
			ri, wi := core.Choose(2), core.Choose(2)
			rForm, wForm := core.Choose(2) == 1, core.Choose(2) == 1
			configured := core.Choose(2) == 1 // 0: leave unconfigured => defaults
			seq := []cfgSetting{}
			wantN, wantW := 1, time.Duration(0)
			if configured {
				seq = []cfgSetting{{param: pRetries, val: ri, builder: rForm}, {param: pWait, val: wi, builder: wForm}}
				wantN, wantW = retryVals[ri], waitVals[wi]
			}
			label = fmt.Sprintf("retries=%d wait=%v", wantN, wantW)
			var starts, ends []int64
			fail := errors.New("always")
			exec := func(context.Context, flyt.Result) (flyt.Result, error) {
				starts = append(starts, core.VNow())
				ends = append(ends, core.VNow())
				return flyt.Result{}, fail
			}
			var err error
			if batch {
				b := buildBatch(seq, false).(*flyt.BatchNodeBuilder)
				b = b.WithExecFunc(exec).WithPrepFunc(func(context.Context, *flyt.SharedStore) ([]flyt.Result, error) {
					return []flyt.Result{flyt.NewResult(1)}, nil
				})
				_, err = flyt.Run(context.Background(), b, flyt.NewSharedStore())
				if err != nil {
					core.Problem("batch probe run failed: %v", err)
				}
			} else {
				b := buildPlain(seq, false).(*flyt.NodeBuilder)
				b = b.WithExecFunc(exec)
				_, err = flyt.Run(context.Background(), b, flyt.NewSharedStore())
				if err == nil || !errors.Is(err, fail) {
					core.Problem("probe run returned %v", err)
				}
			}
			if len(starts) != wantN {
				core.Problem("always-failing exec attempted %d times, configured budget %d (%s)", len(starts), wantN, seqString(seq))
			}
			for k := 1; k < len(starts); k++ {
				if gap := time.Duration(starts[k] - ends[k-1]); gap != wantW {
					core.Problem("virtual time between attempts %d and %d is %v, configured wait %v (%s)", k-1, k, gap, wantW, seqString(seq))
				}
			}
		}
		out = append(out, Scenario{Name: fmt.Sprintf("config-probe retries+wait batch=%v", batch), Bound: 0, Body: body, Check: stdCheck(func() string { return label })})
	}
	// (2) batch concurrency and error handling
	{
		var label string
		body := func() {
			ci, ei := core.Choose(2), core.Choose(2)
			cForm, eForm := core.Choose(2) == 1, core.Choose(2) == 1
			configured := core.Choose(2) == 1
			seq := []cfgSetting{}
			wantC, wantStop := 0, false
			if configured {
				seq = []cfgSetting{{param: pConc, val: ci, builder: cForm}, {param: pErrH, val: ei, builder: eForm}}
				wantC, wantStop = concVals[ci], !errhVals[ei]
			}
			label = fmt.Sprintf("conc=%d stop=%v", wantC, wantStop)
			var order []int
			// the concurrency in force is measured by what it does: every item takes one second of
			// virtual time, so max(1, c) of the three are in flight together — however the
			// library chooses to provide its workers
			var in, maxIn core.Cell[int]
			b := buildBatch(seq, false).(*flyt.BatchNodeBuilder)
			b = b.WithPrepFunc(func(context.Context, *flyt.SharedStore) ([]flyt.Result, error) {
				return []flyt.Result{flyt.NewResult(0), flyt.NewResult(1), flyt.NewResult(2)}, nil
			}).WithExecFunc(func(_ context.Context, it flyt.Result) (flyt.Result, error) {
				in.Set(in.Get() + 1)
				if in.Get() > maxIn.Get() {
					maxIn.Set(in.Get())
				}
				core.Sleep(time.Second)
				in.Set(in.Get() - 1)
				i := it.Value().(int)
				order = append(order, i)
				if i == 0 {
					return flyt.Result{}, errors.New("item0")
				}
				return it, nil
			})
			_, err := flyt.Run(context.Background(), b, flyt.NewSharedStore())
			if err != nil {
				core.Problem("probe batch failed: %v", err)
			}
			if want := max(1, wantC); maxIn.Get() != want {
				core.Problem("at most %d item(s) were in flight together, configured concurrency %d (%s)", maxIn.Get(), wantC, seqString(seq))
			}
			if wantC == 0 {
				if wantStop && len(order) != 1 {
					core.Problem("sequential stop-on-error batch executed items %v (%s)", order, seqString(seq))
				}
				if !wantStop && fmt.Sprint(order) != "[0 1 2]" {
					core.Problem("sequential continue batch executed items %v, want [0 1 2] (%s)", order, seqString(seq))
				}
			} else if !wantStop && len(order) != 3 {
				core.Problem("continue batch executed %d of 3 items (%s)", len(order), seqString(seq))
			}
		}
		out = append(out, Scenario{Name: "config-probe batch concurrency+error-handling", Bound: 1, Body: body, Check: stdCheck(func() string { return label })})
	}
	// (2b) settings are read at run time: run, change them with the builder methods, run again
	{
		var label string
		body := func() {
			firstStop := core.Choose(2) == 1
			// (the limit is also LOWERED between the runs: 2 -> 1)
			c1 := concVals[core.Choose(2)]
			c2 := []int{0, 2, 1}[core.Choose(3)]
			useOpts := core.Choose(2) == 1 // initial configuration through options or through builder methods
			var b *flyt.BatchNodeBuilder
			if useOpts {
				b = flyt.NewBatchNode(flyt.WithBatchErrorHandling(!firstStop), flyt.WithBatchConcurrency(c1))
			} else {
				b = flyt.NewBatchNode().WithBatchErrorHandling(!firstStop).WithBatchConcurrency(c1)
			}
			label = fmt.Sprintf("stop %v->%v conc %d->%d opts=%v", firstStop, !firstStop, c1, c2, useOpts)
			var order []int
			var in, maxIn core.Cell[int]
			b = b.WithPrepFunc(func(context.Context, *flyt.SharedStore) ([]flyt.Result, error) {
				return []flyt.Result{flyt.NewResult(0), flyt.NewResult(1), flyt.NewResult(2)}, nil
			}).WithExecFunc(func(_ context.Context, it flyt.Result) (flyt.Result, error) {
				in.Set(in.Get() + 1)
				if in.Get() > maxIn.Get() {
					maxIn.Set(in.Get())
				}
				core.Sleep(time.Second)
				in.Set(in.Get() - 1)
				i := it.Value().(int)
				order = append(order, i)
				if i == 0 {
					return flyt.Result{}, errors.New("item0")
				}
				return it, nil
			})
			runOnce := func(which string, wantStop bool, wantC int) {
				order = nil
				maxIn.Set(0)
				if _, err := flyt.Run(context.Background(), b, flyt.NewSharedStore()); err != nil {
					core.Problem("%s failed: %v", which, err)
				}
				core.WaitQuiescent()
				if want := max(1, wantC); maxIn.Get() != want {
					core.Problem("%s: at most %d item(s) were in flight together, configured concurrency %d (%s)", which, maxIn.Get(), wantC, label)
				}
				if wantC == 0 {
					if wantStop && len(order) != 1 {
						core.Problem("%s: sequential stop-on-error batch executed items %v (%s)", which, order, label)
					}
					if !wantStop && len(order) != 3 {
						core.Problem("%s: sequential continue batch executed items %v (%s)", which, order, label)
					}
				} else if !wantStop && len(order) != 3 {
					core.Problem("%s: continue batch executed %d of 3 items (%s)", which, len(order), label)
				}
				if got := b.GetBatchErrorHandling(); (got == "stop") != wantStop {
					core.Problem("%s: GetBatchErrorHandling() = %q (%s)", which, got, label)
				}
			}
			runOnce("first run", firstStop, c1)
			// 0 … 3 further setter calls first (the number of settings made between two runs is a
			// dimension of its own), then the two that matter
			for k, extra := 0, core.Choose(4); k < extra; k++ {
				switch k {
				case 0:
					b.WithBatchErrorHandling(!firstStop)
				case 1:
					b.WithWait(waitVals[1])
				default:
					b.WithMaxRetries(retryVals[1])
				}
			}
			b.WithMaxRetries(1).WithWait(0)
			b.WithBatchErrorHandling(firstStop).WithBatchConcurrency(c2) // continueOnError = firstStop => stop = !firstStop
			runOnce("second run after builder reconfiguration", !firstStop, c2)
		}
		out = append(out, Scenario{Name: "config-probe reconfigure a batch node between runs", Bound: 0, Body: body, Check: stdCheck(func() string { return label })})
	}
	// (2c) retry settings are what they were LAST set to, whenever that was: after an earlier run of
	// the same node that was ordinary / had no items / failed in prep, or from inside the prep
	// callback of the very run (a node that tunes itself from what it finds in the store)
	for _, batch := range []bool{false, true} {
		batch := batch
		var label string
		body := func() {
			r1, r2 := retryVals[core.Choose(2)], retryVals[core.Choose(2)]
			w2 := waitVals[core.Choose(2)]
			firstKinds := []string{"no earlier run", "an ordinary run", "a run whose prep failed"}
			if batch {
				firstKinds = append(firstKinds, "a run without items")
			}
			first := firstKinds[core.Choose(len(firstKinds))]
			inPrep := core.Choose(2) == 1
			label = fmt.Sprintf("batch=%v retries %d->%d wait->%v after %s, set inside prep=%v", batch, r1, r2, w2, first, inPrep)
			var starts, ends []int64
			fail := errors.New("always")
			mode := "" // what the callbacks of the current run do
			var reconf func()
			exec := func(context.Context, flyt.Result) (flyt.Result, error) {
				if mode == "ordinary" {
					return flyt.NewResult(1), nil
				}
				starts = append(starts, core.VNow())
				ends = append(ends, core.VNow())
				return flyt.Result{}, fail
			}
			prepErr := errors.New("prep fails in the earlier run")
			var run func() error
			var getN func() int
			var getW func() time.Duration
			if batch {
				b := flyt.NewBatchNode().WithMaxRetries(r1)
				b = b.WithExecFunc(exec).WithPrepFunc(func(context.Context, *flyt.SharedStore) ([]flyt.Result, error) {
					switch mode {
					case "prepfail":
						return nil, prepErr
					case "empty":
						return []flyt.Result{}, nil
					}
					if mode == "probe" && inPrep {
						reconf()
					}
					return []flyt.Result{flyt.NewResult(1)}, nil
				})
				reconf = func() {
					for k, extra := 0, core.Choose(4); k < extra; k++ {
						if k%2 == 0 {
							b.WithMaxRetries(retryVals[k/2])
						} else {
							b.WithWait(waitVals[1])
						}
					}
					switch core.Choose(3) {
					case 0:
						b.WithMaxRetries(r2).WithWait(w2)
					case 1:
						b.WithWait(w2).WithMaxRetries(r2) // the wait is set while the budget is still the old one
					default:
						// the plain option functions applied to the node's embedded BaseNode (what a
						// hand-written node type, or code holding only the node, would do)
						flyt.WithMaxRetries(r2)(b.BaseNode)
						flyt.WithWait(w2)(b.BaseNode)
					}
				}
				run = func() error { _, err := flyt.Run(context.Background(), b, flyt.NewSharedStore()); return err }
				getN, getW = b.GetMaxRetries, b.GetWait
			} else {
				b := flyt.NewNode().WithMaxRetries(r1)
				b = b.WithExecFunc(exec).WithPrepFunc(func(context.Context, *flyt.SharedStore) (flyt.Result, error) {
					if mode == "prepfail" {
						return flyt.Result{}, prepErr
					}
					if mode == "probe" && inPrep {
						reconf()
					}
					return flyt.NewResult(1), nil
				})
				reconf = func() {
					for k, extra := 0, core.Choose(4); k < extra; k++ {
						if k%2 == 0 {
							b.WithMaxRetries(retryVals[k/2])
						} else {
							b.WithWait(waitVals[1])
						}
					}
					switch core.Choose(3) {
					case 0:
						b.WithMaxRetries(r2).WithWait(w2)
					case 1:
						b.WithWait(w2).WithMaxRetries(r2) // the wait is set while the budget is still the old one
					default:
						// the plain option functions applied to the node's embedded BaseNode (what a
						// hand-written node type, or code holding only the node, would do)
						flyt.WithMaxRetries(r2)(b.BaseNode)
						flyt.WithWait(w2)(b.BaseNode)
					}
				}
				run = func() error { _, err := flyt.Run(context.Background(), b, flyt.NewSharedStore()); return err }
				getN, getW = b.GetMaxRetries, b.GetWait
			}
			switch first {
			case "an ordinary run":
				mode = "ordinary"
				if err := run(); err != nil {
					core.Problem("earlier ordinary run failed: %v", err)
				}
			case "a run whose prep failed":
				mode = "prepfail"
				if err := run(); err == nil || !errors.Is(err, prepErr) {
					core.Problem("earlier run with a failing prep returned %v", err)
				}
			case "a run without items":
				mode = "empty"
				if err := run(); err != nil {
					core.Problem("earlier run without items failed: %v", err)
				}
			}
			if !inPrep {
				reconf()
			}
			mode = "probe"
			starts, ends = nil, nil
			err := run()
			if batch && err != nil {
				core.Problem("batch probe run failed: %v", err)
			}
			if !batch && (err == nil || !errors.Is(err, fail)) {
				core.Problem("probe run returned %v", err)
			}
			if getN() != r2 || getW() != w2 {
				core.Problem("getters report retries=%d wait=%v, last set to %d / %v (%s)", getN(), getW(), r2, w2, label)
			}
			if len(starts) != r2 {
				core.Problem("always-failing exec attempted %d times, budget last set to %d (%s)", len(starts), r2, label)
			}
			for k := 1; k < len(starts); k++ {
				if gap := time.Duration(starts[k] - ends[k-1]); gap != w2 {
					core.Problem("virtual time between attempts %d and %d is %v, wait last set to %v (%s)", k-1, k, gap, w2, label)
				}
			}
		}
		out = append(out, Scenario{Name: fmt.Sprintf("config-probe retry settings re-set after earlier runs / inside prep batch=%v", batch), Bound: 0, Body: body, Check: stdCheck(func() string { return label })})
	}
	// (3) pool size <= 0 means one worker
	{
		var label string
		body := func() {
			sizes := []int{-3, -1, 0, 1, 2}
			k := sizes[core.Choose(len(sizes))]
			p := flyt.NewWorkerPool(k)
			want := k
			if want <= 0 {
				want = 1
			}
			// the number of workers is measured by what it allows: three one-second tasks, of
			// which min(3, workers) run together
			var in, maxIn core.Cell[int]
			for i := 0; i < 3; i++ {
				p.Submit(func() {
					in.Set(in.Get() + 1)
					if in.Get() > maxIn.Get() {
						maxIn.Set(in.Get())
					}
					core.Sleep(time.Second)
					in.Set(in.Get() - 1)
				})
			}
			p.Wait()
			got := maxIn.Get()
			label = fmt.Sprintf("size=%d tasks in flight together=%d", k, got)
			if got != min(3, want) {
				core.Problem("NewWorkerPool(%d): %d of three one-second tasks ran together, want %d", k, got, min(3, want))
			}
			p.Close()
		}
		out = append(out, Scenario{Name: "config-probe pool size", Bound: 0, Body: body, Check: stdCheck(func() string { return label })})
	}
	return out
}
