package main

// C02 retry budget and fallback are exact: every budget x every exec failure
// sequence (length up to N+1: an over-run would be answered and counted) x
// fallback absent / ok / err x kinds, for single runs (reference interpreter,
// ref.go) and for every item of a batch (per-item reference, batch.go).

import (
	"fmt"

	flyt "github.com/mark3labs/flyt"
)

func init() {
	register(&Property{ID: "C02", Instr: true, Gen: genC02})
}

// retryMenu: prep and post fixed, exec ok|err_k at every attempt, fallback ok|err.
func retryMenu(h *H, c call) []answer {
	switch c.ph {
	case pPrep:
		return []answer{{val: pvPtr}}
	case pExec:
		return []answer{{val: evPtr}, {err: errExec[c.attempt]}}
	case pFallback:
		return []answer{{val: fvPtr}, {err: errFb}}
	default:
		return []answer{{action: "x"}}
	}
}

func genC02(tier string) []Scenario {
	var out []Scenario
	th := tier == "thorough"
	maxN := 5
	if th {
		maxN = 8
	}
	for kind := 0; kind < numKinds; kind++ {
		for n := 1; n <= maxN; n++ {
			for _, fb := range []bool{false, true} {
				if fb != (kind == kBaseFb || kind == kBareFb) && !kindIsFunc(kind) {
					continue
				}
				for _, place := range []int{placeDirect, placeSecondInFlow} {
					if place != placeDirect && n > 3 {
						continue
					}
					sp := &spec{id: "n", kind: kind, n: n, fb: fb}
					name := fmt.Sprintf("retry kind=%s N=%d fallback=%v place=%s", kindNames[kind], n, fb, placeName(place))
					out = append(out, lifecycleScenario(name, sp, place, retryMenu))
				}
			}
		}
	}
	// every item of a batch: sequential, one worker, two workers
	maxB, maxItems := 4, 3
	if th {
		maxB = 6
	}
	for _, c := range []int{0, 1, 2} {
		for n := 1; n <= maxItems; n++ {
			for budget := 1; budget <= maxB; budget++ {
				for _, fb := range []bool{false, true} {
					if n*budget > 6 && c > 0 && !th {
						continue
					}
					if n*budget > 9 {
						continue
					}
					sc := batchScn{name: fmt.Sprintf("retry-batch-item n=%d c=%d budget=%d fallback=%v", n, c, budget, fb), n: n, c: c, budget: budget, fb: fb,
						shape: shResults, yield: c > 0, execMenu: okOrErrMenu, fbMenu: fbOkOrErr, postMenu: postX, bound: 0, chkPerItem: true}
					out = append(out, sc.scenario())
				}
			}
		}
	}
	return out
}

var _ = flyt.DefaultAction
