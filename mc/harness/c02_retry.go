package main

// C02 retry budget and fallback are exact: every budget x every exec failure
// sequence (length up to N+1: an over-run would be answered and counted) x
// fallback absent / ok / err x kinds, for single runs (reference interpreter,
// ref.go) and for every item of a batch (per-item reference, batch.go).

import (
	"context"
	"fmt"

	flyt "github.com/mark3labs/flyt"
)

func init() {
	register(&Property{ID: "C02", Instr: true, Gen: genC02})
}

// retryMenu: prep and post fixed, exec ok|err_k at every attempt, fallback ok|err.
func retryMenu(h *H, c call) []answer {
	switch c.ph {
	case pPrep:
		return []answer{{val: pvPtr}}
	case pExec:
		// the third alternative is an error that WRAPS a context error although the
		// run's own context is alive (e.g. an inner per-attempt timeout): it is an
		// ordinary attempt failure
		return []answer{{val: evPtr}, {val: junkPtr, err: errExec[c.attempt]}, {err: errExecCtx[c.attempt]}}
	case pFallback:
		return []answer{{val: fvPtr}, {err: errFb}}
	default:
		return []answer{{action: "x"}}
	}
}

var errExecCtx = func() []error {
	var l []error
	for i := 0; i < 12; i++ {
		if i%2 == 0 {
			l = append(l, fmt.Errorf("attempt-%d inner timeout: %w", i, context.DeadlineExceeded))
		} else {
			l = append(l, fmt.Errorf("attempt-%d inner cancel: %w", i, context.Canceled))
		}
	}
	return l
}()

func genC02(tier string) []Scenario {
	var out []Scenario
	th := tier == "thorough"
	maxN := 5
	if th {
		maxN = 8
	}
	for kind := 0; kind < numKinds; kind++ {
		for n := 1; n <= maxN; n++ {
			for _, fb := range []bool{false, true} {
				if fb != (kind == kBaseFb || kind == kBareFb) && !kindIsFunc(kind) {
					continue
				}
				for _, place := range []int{placeDirect, placeSecondInFlow} {
					if place != placeDirect && n > 3 {
						continue
					}
					sp := &spec{id: "n", kind: kind, n: n, fb: fb}
					name := fmt.Sprintf("retry kind=%s N=%d fallback=%v place=%s", kindNames[kind], n, fb, placeName(place))
					out = append(out, lifecycleScenario(name, sp, place, retryMenu))
				}
			}
		}
	}
	// every item of a batch: sequential, one worker, two workers
	maxB, maxItems := 4, 3
	if th {
		maxB = 6
	}
	for _, c := range []int{0, 1, 2} {
		for n := 1; n <= maxItems; n++ {
			for budget := 1; budget <= maxB; budget++ {
				for _, fb := range []bool{false, true} {
					if n*budget > 6 && c > 0 && !th {
						continue
					}
					if n*budget > 9 {
						continue
					}
					sc := batchScn{name: fmt.Sprintf("retry-batch-item n=%d c=%d budget=%d fallback=%v", n, c, budget, fb), n: n, c: c, budget: budget, fb: fb,
						shape: shResults, yield: c > 0, execMenu: okOrErrMenu, fbMenu: fbOkOrErr, postMenu: postX, bound: 0, chkPerItem: true}
					out = append(out, sc.scenario())
				}
			}
		}
	}
	// stop-on-error batches: every item that IS executed still gets exactly its own budget
	for _, c := range []int{0, 2} {
		for _, budget := range []int{2, 3} {
			for _, fb := range []bool{false, true} {
				if budget == 3 && c == 2 && !th {
					continue
				}
				sc := batchScn{name: fmt.Sprintf("retry-batch-item-stopmode n=2 c=%d budget=%d fallback=%v", c, budget, fb), n: 2, c: c, stop: true, budget: budget, fb: fb,
					shape: shResults, yield: c > 0, execMenu: okOrErrMenu, fbMenu: fbOkOrErr, postMenu: postX, bound: 0, chkPerItem: true}
				out = append(out, sc.scenario())
			}
		}
	}
	return out
}

var _ = flyt.DefaultAction
