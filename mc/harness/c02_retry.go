package main

// C02 retry budget and fallback are exact: every budget x every exec failure
// sequence (length up to N+1: an over-run would be answered and counted) x
// fallback absent / ok / err x kinds, for single runs (reference interpreter,
// ref.go) and for every item of a batch (per-item reference, batch.go).

import (
	"context"
	"errors"
	"fmt"
	"strings"
	"time"

	"github.com/mark3labs/flyt/zzvrt/core"

	flyt "github.com/mark3labs/flyt"
)

func init() {
	register(&Property{ID: "C02", Instr: true, Gen: genC02})
}

// retryMenu: prep and post fixed, exec ok|err_k at every attempt, fallback ok|err.
func retryMenu(h *H, c call) []answer {
	switch c.ph {
	case pPrep:
		return []answer{{val: pvPtr}}
	case pExec:
		// the third alternative is an error that WRAPS a context error although the
		// run's own context is alive (e.g. an inner per-attempt timeout): it is an
		// ordinary attempt failure
		return []answer{{val: evPtr}, {val: junkPtr, err: errExec[c.attempt]}, {err: errExecCtx[c.attempt]}}
	case pFallback:
		return []answer{{val: fvPtr}, {err: errFb}}
	default:
		return []answer{{action: "x"}}
	}
}

// errExecCtx: attempt errors with structure.  Wrappers of context errors (the run's own context is
// alive) and — every third one — the error of a failed NESTED run, returned as it is or wrapped:
// what an exec that drives a sub-flow per attempt returns.  All are ordinary attempt failures.
var errExecCtx = func() []error {
	var l []error
	for i := 0; i < 12; i++ {
		switch i % 3 {
		case 0:
			l = append(l, fmt.Errorf("attempt-%d inner timeout: %w", i, context.DeadlineExceeded))
		case 1:
			l = append(l, fmt.Errorf("attempt-%d inner cancel: %w", i, context.Canceled))
		default:
			l = append(l, fmt.Errorf("attempt-%d: sub-flow: %w", i, subRunError()))
		}
	}
	l[0] = subRunError() // a first attempt that fails with a nested run's error, unwrapped
	return l
}()

func genC02(tier string) []Scenario {
	var out []Scenario
	th := tier == "thorough"
	maxN := 5
	if th {
		maxN = 8
	}
	for kind := 0; kind < numKinds; kind++ {
		for n := 1; n <= maxN; n++ {
			for _, fb := range []bool{false, true} {
				if fb != (kind == kBaseFb || kind == kBareFb) && !kindIsFunc(kind) {
					continue
				}
				for _, place := range []int{placeDirect, placeSecondInFlow} {
					if place != placeDirect && n > 3 {
						continue
					}
					sp := &spec{id: "n", kind: kind, n: n, fb: fb}
					name := fmt.Sprintf("retry kind=%s N=%d fallback=%v place=%s", kindNames[kind], n, fb, placeName(place))
					out = append(out, lifecycleScenario(name, sp, place, retryMenu))
					if n == 2 {
						// the same node object (inside the same flow object) run again, whatever the
						// first run came to: every run gets the full budget
						out = append(out, lifecycleScenarioRuns(name+" runs=2(same objects)", sp, place, retryMenu, 2))
					}
				}
			}
		}
	}
	// the budget is re-read on every run: reconfigure the SAME builder-made node between two runs
	for _, kind := range []int{kFuncRB, kFuncAB, kFuncMix} {
		for _, n1 := range []int{1, 2, 3} {
			for _, n2 := range []int{1, 2, 3} {
				if n1 == n2 {
					continue
				}
				out = append(out, reconfigureScenario(kind, n1, n2))
			}
		}
	}
	// a context whose deadline falls inside the retry wait: the run is cut short before the next
	// attempt (and reports the context's error) — it may not jump to the fallback instead
	for _, kind := range []int{kBase, kBaseFb, kFuncRB} {
		for n := 2; n <= 3; n++ {
			out = append(out, deadlineInWaitScenario(kind, n))
		}
	}
	// every item of a batch: sequential, one worker, two workers
	maxB, maxItems := 4, 3
	if th {
		maxB = 6
	}
	for _, c := range []int{0, 1, 2} {
		for n := 1; n <= maxItems; n++ {
			for budget := 1; budget <= maxB; budget++ {
				for _, fb := range []bool{false, true} {
					if n*budget > 6 && c > 0 && !th {
						continue
					}
					if n*budget > 9 {
						continue
					}
					sc := batchScn{name: fmt.Sprintf("retry-batch-item n=%d c=%d budget=%d fallback=%v", n, c, budget, fb), n: n, c: c, budget: budget, fb: fb,
						shape: shResults, yield: c > 0, execMenu: okOrErrMenu, fbMenu: fbOkOrErr, postMenu: postX, bound: 0, chkPerItem: true}
					out = append(out, sc.scenario())
				}
			}
		}
	}
	// the sibling routes that install the exec function (builder method / constructor option,
	// Result style / Any style) give every item the same budget and fallback treatment
	for via := viaBuilderAny; via <= viaOptionAny; via++ {
		for _, c := range []int{0, 2} {
			for _, fb := range []bool{false, true} {
				sc := batchScn{name: fmt.Sprintf("retry-batch-item via %s n=2 c=%d budget=2 fallback=%v", viaNames[via], c, fb), n: 2, c: c, budget: 2, fb: fb, execVia: via,
					shape: shResults, yield: c > 0, execMenu: okOrErrMenu, fbMenu: fbOkOrErr, postMenu: postX, bound: 0, chkPerItem: true, chkPositional: true}
				out = append(out, sc.scenario())
			}
		}
	}
	// one batch node run four times, its budget switched back and forth in between (A, B, A, B)
	for _, c := range []int{0, 2} {
		for _, ab := range [][2]int{{1, 3}, {3, 1}, {2, 4}} {
			sc := batchScn{name: fmt.Sprintf("retry-batch-item budgets %d,%d,%d,%d over four runs n=1 c=%d", ab[0], ab[1], ab[0], ab[1], c), n: 1, c: c, budget: ab[0], fb: true,
				budgetByRun: []int{ab[0], ab[1], ab[0], ab[1]}, runs: 4,
				shape: shResults, yield: false, execMenu: func(i, k int) []answer { return []answer{{err: itemErr(i, k)}} }, // every attempt fails: the count IS the budget
				fbMenu: func(i int) []answer { return fbOkOrErr(i)[:1] }, postMenu: postX, bound: 0, chkPerItem: true}
			out = append(out, sc.scenario())
		}
	}
	// an item that prep hands out as an error Result is still an item: it gets its attempts too
	for _, c := range []int{0, 2} {
		for _, fb := range []bool{false, true} {
			sc := batchScn{name: fmt.Sprintf("retry-batch-error-result-item n=2 c=%d budget=2 fallback=%v", c, fb), n: 2, c: c, budget: 2, fb: fb, errItems: []int{1},
				shape: shResults, yield: c > 0, execMenu: okOrErrMenu, fbMenu: fbOkOrErr, postMenu: postX, bound: 0, chkPerItem: true, chkPositional: true}
			out = append(out, sc.scenario())
		}
	}
	// stop-on-error batches: every item that IS executed still gets exactly its own budget
	for _, c := range []int{0, 2} {
		for _, budget := range []int{2, 3} {
			for _, fb := range []bool{false, true} {
				if budget == 3 && c == 2 && !th {
					continue
				}
				sc := batchScn{name: fmt.Sprintf("retry-batch-item-stopmode n=2 c=%d budget=%d fallback=%v", c, budget, fb), n: 2, c: c, stop: true, budget: budget, fb: fb,
					shape: shResults, yield: c > 0, execMenu: okOrErrMenu, fbMenu: fbOkOrErr, postMenu: postX, bound: 0, chkPerItem: true}
				out = append(out, sc.scenario())
			}
		}
	}
	return out
}

func reconfigureScenario(kind, n1, n2 int) Scenario {
	var h *H
	sp := &spec{id: "n", kind: kind, fb: true}
	body := func() {
		sp.n = n1
		h = newH(sp)
		h.menu = retryMenu
		node := h.build(sp)
		a, err := flyt.Run(h.ctx, node, h.store)
		h.finish(a, err)
		// reconfigure — through the builder method, or by applying the plain option function to the
		// node's embedded BaseNode — then run the same object again
		if core.Choose(2) == 0 {
			node.(*flyt.NodeBuilder).WithMaxRetries(n2)
		} else {
			flyt.WithMaxRetries(n2)(node.(*flyt.NodeBuilder).BaseNode)
		}
		sp.n = n2
		h.nextRun()
		a, err = flyt.Run(h.ctx, node, h.store)
		h.finish(a, err)
	}
	return Scenario{Name: fmt.Sprintf("retry-reconfigured-between-runs kind=%s N=%d->%d", kindNames[kind], n1, n2), Body: body, Check: stdCheck(func() string {
		if h == nil {
			return "?"
		}
		return strings.Join(append(append([]string(nil), h.hist...), h.traceString()), " | ")
	})}
}

func deadlineInWaitScenario(kind, n int) Scenario {
	var h *H
	w := 10 * time.Millisecond
	sp := &spec{id: "n", kind: kind, n: n, fb: true, wait: w}
	body := func() {
		h = newH(sp)
		h.menu = retryMenu
		ctx, _ := core.WithDeadline(context.Background(), core.Now().Add(w/2))
		h.ctx = ctx
		node := h.build(sp)
		a, err := flyt.Run(h.ctx, node, h.store)
		core.Logf("Run returned (%q, %v) at t=%v", a, err, time.Duration(core.VNow()))
		s, _, done := simulate(h.root, h.store, h.answers)
		if !done && err != nil && errors.Is(err, context.DeadlineExceeded) && s.next.ph == pExec && s.next.attempt > 0 {
			return // cut short by the deadline, right before the next attempt: legitimate
		}
		h.finish(a, err)
	}
	return Scenario{Name: fmt.Sprintf("retry-deadline-inside-wait kind=%s N=%d wait=%v", kindNames[kind], n, w), Body: body, Check: stdCheck(func() string {
		if h == nil {
			return "?"
		}
		return h.traceString()
	})}
}

var _ = flyt.DefaultAction
