package main

// Scenario families for the batch properties C06 C07 C08 C09 C11 (driver in batch.go).

import (
	"context"
	"errors"
	"fmt"
	"strings"
	"time"

	flyt "github.com/mark3labs/flyt"
	"github.com/mark3labs/flyt/zzvrt/core"
)

func init() {
	register(&Property{ID: "C06", Instr: true, Gen: genC06})
	register(&Property{ID: "C07", Instr: true, Gen: genC07})
	register(&Property{ID: "C08", Instr: true, Gen: genC08})
	register(&Property{ID: "C09", Instr: true, Gen: genC09})
	register(&Property{ID: "C11", Instr: true, Gen: genC11})
}

func okOrErrMenu(i, k int) []answer { return []answer{{val: okVal(i)}, {err: itemErr(i, k)}} }
func okMenu(i, k int) []answer      { return []answer{{val: okVal(i)}} }

// okErrOrErrResultMenu: an execution may also report failure as an error RESULT with a nil Go error
func okErrOrErrResultMenu(i, k int) []answer {
	return []answer{{val: okVal(i)}, {val: errResultMarker{err: itemErr(i, k)}}, {err: itemErr(i, k)}}
}
func fbOkOrErr(i int) []answer { return []answer{{val: 2000 + i}, {err: fbErrTable[i]}} }

var postX = []answer{{action: "x"}}

// postXOrErr: post may also fail (the run then fails with that error)
var errBatchPost = errors.New("batch-post-failed")
var postXOrErr = []answer{{action: "x"}, {err: errBatchPost}}

var ctxWrapErrs = func() []error {
	var l []error
	for i := 0; i < 12; i++ {
		l = append(l, fmt.Errorf("item %d: inner timeout: %w", i, context.DeadlineExceeded))
	}
	return l
}()

// okNilErrCtxMenu: success, success with a nil value, plain error, error wrapping a context
// error although the batch's own context is alive
func okNilErrCtxMenu(i, k int) []answer {
	return []answer{{val: okVal(i)}, {err: itemErr(i, k)}, {val: nil}, {err: ctxWrapErrs[i%12]}}
}
func okNilErrMenu(i, k int) []answer {
	return []answer{{val: okVal(i)}, {err: itemErr(i, k)}, {val: nil}}
}

// ctxishErr: errors of item i, attempt k that MATCH a context error under errors.Is although the
// batch's own context is alive — an inner per-item timeout wrapped with %w, an errors.Join with
// context.Canceled, a custom type whose Is method answers for DeadlineExceeded (as net's timeout
// error does).  To the library they are item errors like any other.
type isTimeoutErr struct{ tag string }

func (e *isTimeoutErr) Error() string        { return e.tag }
func (e *isTimeoutErr) Is(target error) bool { return target == context.DeadlineExceeded }

var ctxishErrTable = func() [][]error {
	var t [][]error
	for i := 0; i < 12; i++ {
		var row []error
		for k := 0; k < 4; k++ {
			tag := fmt.Sprintf("item%d-attempt%d", i, k)
			switch (i + k) % 3 {
			case 0:
				row = append(row, fmt.Errorf("%s: inner timeout: %w", tag, context.DeadlineExceeded))
			case 1:
				row = append(row, errors.Join(errors.New(tag+": gave up"), context.Canceled))
			default:
				row = append(row, &isTimeoutErr{tag: tag + ": i/o timeout"})
			}
		}
		t = append(t, row)
	}
	return t
}()

func okOrCtxishErrMenu(i, k int) []answer {
	return []answer{{val: okVal(i)}, {err: ctxishErrTable[i%12][k%4]}}
}
func failAtCtxishMenu(f int) func(i, k int) []answer {
	return func(i, k int) []answer {
		if i == f {
			return []answer{{err: ctxishErrTable[i%12][k%4]}}
		}
		return []answer{{val: okVal(i)}}
	}
}

func failFirstMenu(i, k int) []answer {
	if k == 0 {
		return []answer{{err: itemErr(i, k)}}
	}
	return []answer{{val: okVal(i)}}
}

// ---------------------------------------------------------------- C06

func genC06(tier string) []Scenario {
	var out []Scenario
	th := tier == "thorough"
	add := func(sc batchScn) {
		sc.chkPositional = true
		if sc.postMenu == nil {
			sc.postMenu = postX
		}
		sc.budget = 1
		out = append(out, sc.scenario())
	}
	// the caller re-uses ONE slice object for its items, refilled in place before every run ([]any
	// and []Result): each run processes the items that are in the slice NOW
	for _, shape := range []int{shAny, shResults} {
		for _, c := range []int{0, 2} {
			menu := okOrErrMenu
			if c > 0 {
				menu = okMenu // (pooled: the schedules are the branching)
			}
			add(batchScn{name: fmt.Sprintf("positional-same-slice-refilled %s n=2 c=%d runs=3", shapeNames[shape], c), n: 2, c: c, shape: shape, sameSlice: true, yield: c > 0, execMenu: menu, bound: 0, runs: 3})
			add(batchScn{name: fmt.Sprintf("positional-same-slice-refilled %s items=2,3,2 c=%d", shapeNames[shape], c), n: 2, nByRun: []int{2, 3, 2}, c: c, shape: shape, sameSlice: true, yield: c > 0, execMenu: okMenu, bound: 0, runs: 3})
		}
	}
	// item errors that match a context error (the batch's context is alive): slot i holds that error
	for _, c := range []int{0, 1, 2} {
		add(batchScn{name: fmt.Sprintf("positional-ctx-matching-item-errors n=2 c=%d", c), n: 2, c: c, shape: shResults, yield: c > 0, execMenu: okOrCtxishErrMenu, bound: 0})
	}
	maxN, maxC := 3, 2
	if th {
		maxN, maxC = 4, 3
	}
	bounds := []int{2}
	if th {
		bounds = []int{3, unbounded}
	}
	for _, bd := range bounds {
		// fine-grained: every sync op of the pool/batch is a scheduling point; exec
		// also yields, so every completion order is reachable without preemptions
		for c := 0; c <= maxC; c++ {
			for n := 0; n <= maxN; n++ {
				if c == 0 && bd != bounds[0] {
					continue // sequential: no interleaving to bound
				}
				if bd == unbounded && n+c > 5 {
					continue
				}
				add(batchScn{name: fmt.Sprintf("positional n=%d c=%d shape=[]Result exec=ok|err", n, c), n: n, c: c, shape: shResults, yield: true, execMenu: okOrErrMenu, bound: bd})
			}
		}
	}
	// coarse: larger batches, all completion orders, no internal preemption
	cn, cc := 5, 3
	if th {
		cn, cc = 6, 4
	}
	for c := 1; c <= cc; c++ {
		for _, n := range []int{cn - 1, cn} {
			if !th && c == 3 && n == cn {
				continue
			}
			add(batchScn{name: fmt.Sprintf("positional-coarse n=%d c=%d exec=ok", n, c), n: n, c: c, shape: shResults, yield: true, execMenu: okMenu, bound: 0})
		}
	}
	// payload shapes accepted by prep
	for sh := shAny; sh <= shNoPrep; sh++ {
		for _, c := range []int{0, 2} {
			n := 2
			if sh == shSingle {
				n = 1
			}
			if sh == shNil || sh == shNoPrep {
				n = 0
			}
			add(batchScn{name: fmt.Sprintf("positional n=%d c=%d shape=%s", n, c, shapeNames[sh]), n: n, c: c, shape: sh, yield: true, execMenu: okOrErrMenu, bound: 1, anyExec: sh == shInts})
		}
	}
	// the outcome of an item may be an error Result returned with a nil error: it is that item's
	// outcome all the same, at its position, on the sequential and on the pooled path
	for _, c := range []int{0, 1, 2} {
		for _, n := range []int{1, 2} {
			add(batchScn{name: fmt.Sprintf("positional-error-results n=%d c=%d exec=ok|errResult|err", n, c), n: n, c: c, shape: shResults, yield: c > 0, execMenu: okErrOrErrResultMenu, bound: 0})
		}
	}
	// stop-on-error and cancellation: post still sees every slot as item i's own outcome (or an
	// error for an item that never ran), once, after everything that runs has settled
	for _, c := range []int{0, 2} {
		for _, n := range []int{2, 3} {
			bd := 1
			add(batchScn{name: fmt.Sprintf("positional-stopmode n=%d c=%d exec=ok|nil|err", n, c), n: n, c: c, stop: true, shape: shResults, yield: c > 0, execMenu: okNilErrMenu, bound: bd})
			if n == 2 || c == 0 {
				add(batchScn{name: fmt.Sprintf("positional-cancelled n=%d c=%d exec=ok|err|nil", n, c), n: n, c: c, shape: shResults, yield: c > 0, execMenu: okNilErrMenu, bound: bd, cancel: cancelSpec{kind: 1, lazy: true}})
			}
		}
	}
	// the same node object run twice: nothing of the first run may show up in the second
	for _, c := range []int{0, 2} {
		add(batchScn{name: fmt.Sprintf("positional-two-runs n=2 c=%d exec=ok|err|nil", c), n: 2, c: c, shape: shResults, yield: c > 0, execMenu: okNilErrMenu, bound: 0, runs: 2})
	}
	// ... and a later run may have fewer (or more) items than an earlier one
	add(batchScn{name: "positional-runs-of-different-size items=3,1,2 c=0 exec=ok|err", n: 3, nByRun: []int{3, 1, 2}, c: 0, shape: shResults, execMenu: okOrErrMenu, bound: 0, runs: 3})
	add(batchScn{name: "positional-runs-of-different-size items=2,1 c=2 exec=ok|err", n: 2, nByRun: []int{2, 1}, c: 2, shape: shResults, yield: true, execMenu: okOrErrMenu, bound: 0, runs: 2})
	if th {
		add(batchScn{name: "positional-runs-of-different-size items=3,1,2 c=2 exec=ok|err", n: 3, nByRun: []int{3, 1, 2}, c: 2, shape: shResults, yield: true, execMenu: okOrErrMenu, bound: 0, runs: 3})
	}
	sizeSweep(&out, "positional", nil)
	// ... with the concurrency switched between the runs (pooled, sequential, pooled again; …)
	for _, cs := range [][]int{{2, 0, 2}, {0, 2, 0}, {2, 1, 2}, {1, 3, 1}} {
		add(batchScn{name: fmt.Sprintf("positional-concurrency-switched %v over three runs n=2", cs), n: 2, c: cs[0], cByRun: cs, shape: shResults, yield: false, execMenu: okOrErrMenu, bound: 0, runs: 3})
	}
	// ... after a first run that ended badly: an item failed AND post failed (both modes)
	for _, c := range []int{0, 2} {
		for _, stop := range []bool{false, true} {
			add(batchScn{name: fmt.Sprintf("positional-rerun-after-failed-run n=2 c=%d stop=%v exec=ok|err post=ok|err", c, stop), n: 2, c: c, stop: stop, shape: shResults, yield: c > 0, execMenu: okOrErrMenu, postMenu: postXOrErr, bound: 0, runs: 2})
		}
	}
	// ... and a pipeline that feeds a run's results straight back in as the next run's items
	// (the very slice post received): items and results must stay two different things
	for _, c := range []int{0, 2} {
		add(batchScn{name: fmt.Sprintf("positional-results-fed-back-as-items n=2 c=%d runs=3", c), n: 2, c: c, shape: shResults, yield: c > 0, execMenu: okMenu, bound: 0, runs: 3, feedback: true})
	}
	// a context deadline that passes while items are executing (each takes 1 s of virtual time)
	for _, c := range []int{1, 2} {
		add(batchScn{name: fmt.Sprintf("positional-deadline-mid-exec n=3 c=%d", c), n: 3, c: c, shape: shResults, execMenu: okMenu, bound: 1, deadline: 1500 * time.Millisecond, execDur: time.Second})
	}
	// a large batch (beyond any chunking threshold), cancelled from inside every item in turn
	for _, c := range []int{0, 1} {
		n := 130
		if th {
			n = 260
		}
		add(batchScn{name: fmt.Sprintf("positional-large-cancelled n=%d c=%d", n, c), n: n, c: c, shape: shResults, execMenu: okMenu, bound: 0, cancel: cancelSpec{kind: 1, lazy: true}})
	}
	// prep failure: post must not run
	add(batchScn{name: "positional prep-fails", n: 2, c: 2, shape: shResults, prepErr: true, execMenu: okMenu, bound: 0})
	return out
}

// ---------------------------------------------------------------- C07

func genC07(tier string) []Scenario {
	var out []Scenario
	th := tier == "thorough"
	maxN, maxBudget := 3, 2
	cs := []int{0, 1, 2}
	if th {
		maxN, maxBudget = 4, 3
		cs = []int{0, 1, 2, 3}
	}
	for _, c := range cs {
		for n := 1; n <= maxN; n++ {
			for budget := 1; budget <= maxBudget; budget++ {
				for _, fb := range []bool{false, true} {
					if n == maxN && budget == maxBudget && c > 1 && !th {
						continue
					}
					if th && n == 4 && (budget == 3 || c == 3) {
						continue
					}
					bd := 0
					if th && n <= 2 {
						bd = 1
					}
					sc := batchScn{name: fmt.Sprintf("per-item n=%d c=%d budget=%d fallback=%v", n, c, budget, fb), n: n, c: c, budget: budget, fb: fb,
						shape: shResults, yield: c > 0, execMenu: okOrErrMenu, fbMenu: fbOkOrErr, postMenu: postX, bound: bd, chkPerItem: true}
					out = append(out, sc.scenario())
				}
			}
		}
	}
	sizeSweep(&out, "per-item", nil)
	// failed attempts whose error matches a context error (the batch's context is alive): full
	// budget, fallback, slot — as for any other error
	for _, c := range []int{0, 2} {
		for _, fb := range []bool{false, true} {
			sc := batchScn{name: fmt.Sprintf("per-item ctx-matching-errors n=2 c=%d budget=3 fallback=%v", c, fb), n: 2, c: c, budget: 3, fb: fb,
				shape: shResults, yield: c > 0, execMenu: okOrCtxishErrMenu, fbMenu: fbOkOrErr, postMenu: postX, bound: 0, chkPerItem: true}
			out = append(out, sc.scenario())
		}
	}
	// one slice object re-used for the items of every run
	for _, shape := range []int{shAny, shResults} {
		for _, c := range []int{0, 2} {
			menu := okOrErrMenu
			if c > 0 {
				menu = failFirstMenu
			}
			sc := batchScn{name: fmt.Sprintf("per-item same-slice-refilled %s n=2 c=%d budget=2 runs=2", shapeNames[shape], c), n: 2, c: c, budget: 2, fb: true, sameSlice: true, runs: 2,
				shape: shape, yield: c > 0, execMenu: menu, fbMenu: fbOkOrErr, postMenu: postX, bound: 0, chkPerItem: true, chkPositional: true}
			out = append(out, sc.scenario())
		}
	}
	// budget and concurrency re-set between three runs of one node: every run gets the budget in force
	for _, cs := range [][]int{{2, 0, 2}, {0, 2, 0}} {
		sc := batchScn{name: fmt.Sprintf("per-item concurrency %v and budgets 1,3,3 over three runs n=2", cs), n: 2, c: cs[0], cByRun: cs, budget: 1, budgetByRun: []int{1, 3, 3}, runs: 3, fb: true,
			shape: shResults, execMenu: func(i, k int) []answer { return []answer{{err: itemErr(i, k)}} }, fbMenu: func(i int) []answer { return fbOkOrErr(i)[:1] }, postMenu: postX, bound: 0, chkPerItem: true}
		out = append(out, sc.scenario())
	}
	// an attempt that RETURNS an error Result (nil error) has succeeded: no retry, no fallback
	for _, c := range []int{0, 2} {
		sc := batchScn{name: fmt.Sprintf("per-item error-results n=2 c=%d budget=2 fallback=true", c), n: 2, c: c, budget: 2, fb: true,
			shape: shResults, yield: c > 0, execMenu: okErrOrErrResultMenu, fbMenu: fbOkOrErr, postMenu: postX, bound: 0, chkPerItem: true, chkPositional: true}
		out = append(out, sc.scenario())
	}
	// the same node object run again with fewer / more items
	for _, c := range []int{0, 2} {
		sc := batchScn{name: fmt.Sprintf("per-item runs-of-different-size items=2,1 c=%d budget=1", c), n: 2, nByRun: []int{2, 1}, runs: 2, c: c, budget: 1, fb: true,
			shape: shResults, yield: c > 0, execMenu: okOrErrMenu, fbMenu: fbOkOrErr, postMenu: postX, bound: 0, chkPerItem: true, chkPositional: true}
		out = append(out, sc.scenario())
	}
	// every route that installs the exec function gives the same per-item treatment
	for via := viaBuilderAny; via <= viaOptionAny; via++ {
		for _, c := range []int{0, 2} {
			sc := batchScn{name: fmt.Sprintf("per-item via %s n=2 c=%d budget=2 fallback=true", viaNames[via], c), n: 2, c: c, budget: 2, fb: true, execVia: via,
				shape: shResults, yield: c > 0, execMenu: okOrErrMenu, fbMenu: fbOkOrErr, postMenu: postX, bound: 0, chkPerItem: true}
			out = append(out, sc.scenario())
		}
	}
	// fine-grained: preemptions between the library's own synchronisation steps (claiming an item,
	// storing its result), not only at callbacks
	for _, c := range []int{2, 3} {
		for n := 2; n <= 3; n++ {
			if c == 3 && n == 3 && !th {
				continue
			}
			bd := 2
			if th && n+c <= 4 {
				bd = unbounded
			}
			sc := batchScn{name: fmt.Sprintf("per-item-fine n=%d c=%d budget=1", n, c), n: n, c: c, budget: 1, shape: shResults, yield: true,
				execMenu: okOrErrMenu, fbMenu: fbOkOrErr, postMenu: postX, bound: bd, chkPerItem: true, chkPositional: true}
			out = append(out, sc.scenario())
		}
	}
	// errors that wrap a context error (the batch context is alive) and nil-valued successes are
	// ordinary per-item outcomes; a cancellation mid-batch never rewrites an item that had finished
	for _, c := range []int{0, 1, 2} {
		sc := batchScn{name: fmt.Sprintf("per-item-values n=3 c=%d exec=ok|err|nil|ctx-wrapping-err", c), n: 3, c: c, budget: 1,
			shape: shResults, yield: c > 0, execMenu: okNilErrCtxMenu, fbMenu: fbOkOrErr, postMenu: postX, bound: 0, chkPerItem: true}
		out = append(out, sc.scenario())
		sc2 := batchScn{name: fmt.Sprintf("per-item-cancelled n=3 c=%d exec=ok|nil|err fallback=nil-ok", c), n: 3, c: c, budget: 1, fb: true,
			shape: shResults, yield: c > 0, execMenu: okNilErrMenu, fbMenu: func(i int) []answer { return []answer{{val: nil}, {err: fbErrTable[i]}} }, postMenu: postX, bound: 0,
			chkPerItem: true, chkPositional: true, cancel: cancelSpec{kind: 1, lazy: true}}
		out = append(out, sc2.scenario())
	}
	return out
}

// ---------------------------------------------------------------- C08

// nestedBatchLimitScenario: a batch with limit cIn run from INSIDE an item of another concurrent
// batch (limit cOut), with the context that item's exec received: the inner batch's own limit is
// usable in full — its cIn items all wait for each other — and never exceeded.
func nestedBatchLimitScenario(cOut, cIn int) Scenario {
	body := func() {
		var in, maxIn, arrived core.Cell[int]
		items := func(n int) []flyt.Result {
			r := make([]flyt.Result, n)
			for i := range r {
				r[i] = flyt.NewResult(i)
			}
			return r
		}
		inner := flyt.NewBatchNode().WithBatchConcurrency(cIn).
			WithPrepFunc(func(context.Context, *flyt.SharedStore) ([]flyt.Result, error) { return items(cIn), nil }).
			WithExecFunc(func(_ context.Context, it flyt.Result) (flyt.Result, error) {
				in.Set(in.Get() + 1)
				if in.Get() > maxIn.Get() {
					maxIn.Set(in.Get())
				}
				arrived.Set(arrived.Get() + 1)
				core.Block("inner-barrier", func() bool { return arrived.Peek() >= cIn })
				arrived.Get()
				in.Set(in.Get() - 1)
				return it, nil
			})
		outer := flyt.NewBatchNode().WithBatchConcurrency(cOut).
			WithPrepFunc(func(context.Context, *flyt.SharedStore) ([]flyt.Result, error) { return items(1), nil }).
			WithExecFunc(func(ctx context.Context, it flyt.Result) (flyt.Result, error) {
				_, err := flyt.Run(ctx, inner, flyt.NewSharedStore())
				return it, err
			})
		if _, err := flyt.Run(context.Background(), outer, flyt.NewSharedStore()); err != nil {
			core.Problem("nested batches: the outer run failed: %v", err)
		}
		if m := maxIn.Get(); m > cIn {
			core.Problem("inner batch: %d executions in flight with concurrency %d", m, cIn)
		}
	}
	return Scenario{Name: fmt.Sprintf("limit of a batch run from inside an item of another batch: outer c=%d inner c=%d (mutually dependent items)", cOut, cIn), Bound: 0, Body: body, Check: stdCheck(func() string { return "done" })}
}

func subsets(n, maxSize int) [][]int {
	var res [][]int
	for m := 1; m < 1<<n; m++ {
		var s []int
		for i := 0; i < n; i++ {
			if m&(1<<i) != 0 {
				s = append(s, i)
			}
		}
		if len(s) <= maxSize {
			res = append(res, s)
		}
	}
	return res
}

func genC08(tier string) []Scenario {
	var out []Scenario
	th := tier == "thorough"
	cs := []int{0, 1, 2, 3}
	if th {
		cs = []int{0, 1, 2, 3, 4}
	}
	bd := 2
	for _, c := range cs {
		eff := c
		if eff == 0 {
			eff = 1
		}
		ns := []int{eff, eff + 1, 2*eff + 1, 3*eff + 2}
		for _, n := range ns {
			b := bd
			if n >= 5 || c >= 3 {
				b = 1
			}
			if n >= 7 || (c >= 3 && n >= 4 && !th) {
				b = 0 // every completion order, no internal preemption
			}
			if !th && c >= 3 && n >= 7 {
				continue // 2c+1 and 3c+2 items on 3 workers: thorough tier
			}
			if th && n <= 4 {
				b = unbounded
			}
			if th && n > 4 && n < 8 {
				b = 2
			}
			sc := batchScn{name: fmt.Sprintf("limit-counting n=%d c=%d", n, c), n: n, c: c, budget: 1, shape: shResults, yield: true, execMenu: okMenu, postMenu: postX, bound: b, chkLimit: true}
			out = append(out, sc.scenario())
		}
		// usability: every set D of <= c mutually dependent items must be able to run simultaneously
		if c >= 1 {
			maxItems := 4
			if th {
				maxItems = 5
			}
			seenN := map[int]bool{}
			for _, n := range []int{c, c + 1, maxItems} {
				if n > maxItems || n < c || seenN[n] {
					continue
				}
				seenN[n] = true
				for _, d := range subsets(n, c) {
					if len(d) < 2 && c >= 2 && n > c {
						continue // singletons never wait
					}
					b := 1
					if th {
						b = 2
					}
					sc := batchScn{name: fmt.Sprintf("limit-barrier n=%d c=%d D=%v", n, c, d), n: n, c: c, budget: 1, shape: shResults, execMenu: okMenu, postMenu: postX, barrier: d, bound: b, chkLimit: true}
					if len(d) == c && n == c {
						// the limit is just as usable when flyt is handed the bare *BatchNode
						sc2 := sc
						sc2.name += " (bare *BatchNode)"
						sc2.unwrap = true
						sc2.bound = 0
						out = append(out, sc2.scenario())
					}
					out = append(out, sc.scenario())
				}
			}
		}
	}
	// the limit in force is the one last set: 3 workers, then 1; 1, then 3; 2, 3, 2
	for _, cs := range [][]int{{3, 1}, {1, 3}, {2, 3, 2}} {
		sc := batchScn{name: fmt.Sprintf("limit re-set between runs %v n=3", cs), n: 3, c: cs[0], cByRun: cs, budget: 1, shape: shResults, execMenu: okMenu, postMenu: postX, bound: 0, chkLimit: true, runs: len(cs), execDur: time.Second}
		out = append(out, sc.scenario())
	}
	// a two-digit limit is a limit like any other: 9 and 10 workers, as many mutually dependent items
	// (thorough tier only, and only the first 20 000 schedules: nine symmetric workers have 9! orders)
	for _, c := range []int{9, 10} {
		if !th {
			break
		}
		d := make([]int, c)
		for i := range d {
			d[i] = i
		}
		sc := batchScn{name: fmt.Sprintf("limit-barrier n=%d c=%d all items depend on each other", c, c), n: c, c: c, budget: 1, shape: shResults, execMenu: okMenu, postMenu: postX, barrier: d, bound: 0, chkLimit: true}
		scn := sc.scenario()
		scn.MaxExec = 20000
		out = append([]Scenario{scn}, out...) // claimed first: cheap, and must not starve behind the long ones
	}
	// more workers than the quick tier's default, a couple of items beyond c, one preemption:
	// windows that only open while the pool is still ramping up / while a worker is re-used
	// (item 0 finishes at once and its worker comes back for more while the others are held in
	// one-second executions: maximal overlap with few schedules)
	for _, c := range []int{2, 3, 4} {
		if c == 4 && !th {
			continue
		}
		b := 1
		if th && c < 4 {
			b = 2
		}
		sc := batchScn{name: fmt.Sprintf("limit-rampup n=%d c=%d", c+2, c), n: c + 2, c: c, budget: 1, shape: shResults, yield: true, execMenu: okMenu, postMenu: postX, bound: b, chkLimit: true,
			execDur: time.Second, fast: []int{0}, stagger: true}
		out = append(out, sc.scenario())
	}
	for _, pr := range [][2]int{{2, 3}, {1, 2}, {3, 2}} {
		out = append(out, nestedBatchLimitScenario(pr[0], pr[1]))
	}
	// a first run with FEWER items than the limit, then runs with more: the limit of the later runs
	// is usable in full (mutually dependent items), whatever the node kept from the small run
	for _, sizes := range [][]int{{1, 3}, {2, 3}} {
		sc := batchScn{name: fmt.Sprintf("limit-after-smaller-runs items=%v c=3", sizes), n: sizes[0], nByRun: sizes, c: 3, budget: 1, shape: shResults, execMenu: okMenu, postMenu: postX, barrier: []int{0, 1, 2}, bound: 0, chkLimit: true, runs: len(sizes)}
		out = append(out, sc.scenario())
	}
	// slow executions (1 s of virtual time each) with more items than workers + queue: the
	// submitter stays blocked on a full queue while time passes
	for _, c := range []int{1, 2} {
		n := 3*c + 2
		sc := batchScn{name: fmt.Sprintf("limit-slow n=%d c=%d exec=1s", n, c), n: n, c: c, budget: 1, shape: shResults, execMenu: okMenu, postMenu: postX, bound: 0, chkLimit: true, execDur: time.Second}
		out = append(out, sc.scenario())
		// the same in stop-on-error mode (nothing fails: the mode alone must not change the limit)
		sc2 := batchScn{name: fmt.Sprintf("limit-slow-stopmode n=%d c=%d exec=1s", n, c), n: n, c: c, stop: true, budget: 1, shape: shResults, execMenu: okMenu, postMenu: postX, bound: 0, chkLimit: true, execDur: time.Second}
		out = append(out, sc2.scenario())
		// ... and with failures, twice on the same node: whatever the first run leaves behind
		// (items still executing, a stopped flag) must not show in the second
		sc3 := batchScn{name: fmt.Sprintf("limit-slow-stopmode-with-failures n=%d c=%d exec=1s runs=2", n, c), n: n, c: c, stop: true, budget: 1, shape: shResults, execMenu: okOrErrMenu, postMenu: postX, bound: 0, chkLimit: true, chkPositional: true, execDur: time.Second, fast: []int{0}, runs: 2}
		if c == 1 {
			out = append(out, sc3.scenario())
		}
	}
	// items that fail their first attempt and wait before the retry still occupy their worker
	for _, c := range []int{1, 2} {
		sc := batchScn{name: fmt.Sprintf("limit-retry-wait n=%d c=%d budget=2 wait=1ms", c+2, c), n: c + 2, c: c, budget: 2, wait: time.Millisecond, shape: shResults, yield: true,
			execMenu: failFirstMenu, postMenu: postX, bound: 1, chkLimit: true}
		out = append(out, sc.scenario())
	}
	// the limit must be usable in stop-on-error mode as well
	for _, c := range []int{2, 3} {
		d := make([]int, c)
		for i := range d {
			d[i] = i
		}
		sc := batchScn{name: fmt.Sprintf("limit-barrier-stopmode n=%d c=%d D=%v", c+1, c, d), n: c + 1, c: c, stop: true, budget: 1, shape: shResults, execMenu: okMenu, postMenu: postX, barrier: d, bound: 1, chkLimit: true}
		out = append(out, sc.scenario())
	}
	// the worker pool directly: never more than max(w,1) tasks in flight
	for _, w := range []int{-1, 0, 1, 2, 3} {
		eff := w
		if eff <= 0 {
			eff = 1
		}
		n := 2*eff + 1
		if n > 5 {
			n = 5
		}
		if eff >= 3 && !th {
			n = 4
		}
		b := 2
		if eff >= 2 {
			b = 1
		}
		if eff >= 3 {
			b = 0
		}
		if th {
			b = unbounded
			if eff >= 3 {
				b = 3
			}
		}
		ps := poolScn{w: w, progs: []string{strings.Repeat("y", n)}, limit: true}
		sc := ps.scenario(b)
		sc.Name = "limit-" + sc.Name + boundName(b)
		out = append(out, sc)
	}
	return out
}

// ---------------------------------------------------------------- C09

func failAtMenu(f int) func(i, k int) []answer {
	return func(i, k int) []answer {
		if i == f {
			return []answer{{err: itemErr(i, k)}}
		}
		return []answer{{val: okVal(i)}}
	}
}

// sizesMenu: what the items of a LARGE batch do — the first fails (a Go error), the last returns an
// error Result, one in the upper half fails too, the rest succeed: no choice anywhere, so a batch
// of 66 items costs a handful of executions.
func sizesMenu(n int) func(i, k int) []answer {
	return func(i, k int) []answer {
		switch {
		case i == 0 || (i == n-2 && n > 4):
			return []answer{{err: itemErr(i%8, k)}}
		case i == n-1:
			return []answer{{val: errResultMarker{err: itemErr(i%8, k)}}}
		}
		return []answer{{val: okVal(i)}}
	}
}

// sizeSweep: batches of 17 … 66 items (beyond every small size, around powers of two), sequential
// and pooled, both modes: positions, per-item treatment and never-run slots are judged as ever.
func sizeSweep(out *[]Scenario, tag string, extra func(sc *batchScn)) {
	for _, n := range []int{17, 18, 33, 34, 65, 66} {
		for _, c := range []int{0, 1, 2} {
			if (c == 2 && n > 34) || (c == 1 && n < 65) {
				continue // two workers: up to 34 items (the schedules multiply); one worker: the largest sizes
			}
			for _, stop := range []bool{false, true} {
				sc := batchScn{name: fmt.Sprintf("%s sizes n=%d c=%d stop=%v", tag, n, c, stop), n: n, c: c, stop: stop, budget: 1, shape: shResults,
					execMenu: sizesMenu(n), postMenu: postX, bound: 0, chkPositional: true, chkPerItem: true, chkStop: true}
				if extra != nil {
					extra(&sc)
				}
				*out = append(*out, sc.scenario())
			}
		}
	}
}

// failAtSetMenu: the items in fs fail, the others succeed
func failAtSetMenu(fs ...int) func(i, k int) []answer {
	return func(i, k int) []answer {
		if contains(fs, i) {
			return []answer{{err: itemErr(i, k)}}
		}
		return []answer{{val: okVal(i)}}
	}
}

func genC09(tier string) []Scenario {
	var out []Scenario
	th := tier == "thorough"
	maxSeq, maxConc := 5, 4
	if th {
		maxSeq, maxConc = 8, 5
	}
	add := func(sc batchScn) {
		sc.chkStop = true
		sc.postMenu = postX
		sc.shape = shResults
		out = append(out, sc.scenario())
	}
	sizeSweep(&out, "stop", func(sc *batchScn) { sc.postMenu = postX })
	// the failing item's error matches a context error (the batch's context is alive): it is a
	// failure like any other and stops the batch
	for _, c := range []int{0, 1, 2} {
		for f := 0; f < 2; f++ {
			add(batchScn{name: fmt.Sprintf("stop ctx-matching-error n=3 c=%d fail=%d", c, f), n: 3, c: c, stop: true, budget: 1, yield: c > 0, execMenu: failAtCtxishMenu(f), bound: 1})
		}
	}
	// concurrency and mode re-set between runs of one node: 3 workers continue, then 1 worker stop, …
	for _, cs := range [][]int{{3, 1}, {2, 1}, {1, 2, 1}, {2, 0}, {1, 1}} {
		stops := []bool{false, true, true}[:len(cs)]
		add(batchScn{name: fmt.Sprintf("stop concurrency %v, mode continue then stop, n=3 fail=0", cs), n: 3, c: cs[0], cByRun: cs, stopByRun: stops, budget: 1, yield: true, execMenu: failAtMenu(0), bound: 0, runs: len(cs)})
		add(batchScn{name: fmt.Sprintf("stop concurrency %v (by way of another value), mode continue then stop, n=3 fail=0", cs), n: 3, c: cs[0], cByRun: cs, cDetour: true, stopByRun: stops, budget: 1, yield: true, execMenu: failAtMenu(0), bound: 0, runs: len(cs)})
	}
	// TWO items fail, possibly at the same moment on two workers: each of those workers has then
	// observed a failure and starts nothing further, whichever of them "won"
	for _, pr := range [][2]int{{0, 1}, {0, 2}, {1, 2}} {
		bd := 2
		if th {
			bd = unbounded
		}
		add(batchScn{name: fmt.Sprintf("stop-two-failures n=4 c=2 fail=%v", pr), n: 4, c: 2, stop: true, budget: 1, yield: true, execMenu: failAtSetMenu(pr[0], pr[1]), bound: bd})
	}
	// sequential and one worker: nothing after the first failing item; all positions
	for _, c := range []int{0, 1} {
		for n := 1; n <= maxSeq; n++ {
			if c == 1 && n > maxConc {
				continue
			}
			for f := -1; f < n; f++ {
				for _, stop := range []bool{true, false} {
					for _, budget := range []int{1, 2} {
						if budget == 2 && n > 3 {
							continue
						}
						bd := 2
						if c == 1 && n >= 4 {
							bd = 1
						}
						if c == 1 && th && n <= 3 {
							bd = unbounded
						}
						add(batchScn{name: fmt.Sprintf("stop n=%d c=%d fail=%d stop=%v budget=%d", n, c, f, stop, budget), n: n, c: c, stop: stop, budget: budget, yield: c > 0, execMenu: failAtMenu(f), bound: bd})
					}
				}
			}
		}
	}
	// lazily scripted failures (several items may fail), sequential
	for n := 1; n <= 4; n++ {
		for _, stop := range []bool{true, false} {
			add(batchScn{name: fmt.Sprintf("stop-scripted n=%d c=0 stop=%v", n, stop), n: n, c: 0, stop: stop, budget: 1, execMenu: okOrErrMenu, bound: 0})
		}
	}
	// failing fallback variant
	for _, c := range []int{0, 2} {
		sc := batchScn{name: fmt.Sprintf("stop-fallback n=3 c=%d", c), n: 3, c: c, stop: true, budget: 1, fb: true, yield: c > 0, execMenu: okOrErrMenu, fbMenu: fbOkOrErr, bound: 1}
		add(sc)
	}
	// unusual retry budgets (0, negative): whatever the node does with such a budget, an item whose
	// exec never ran must not reach post as a success
	for _, budget := range []int{0, -1} {
		for _, c := range []int{0, 2} {
			for _, stop := range []bool{true, false} {
				add(batchScn{name: fmt.Sprintf("stop-budget n=2 c=%d stop=%v budget=%d", c, stop, budget), n: 2, c: c, stop: stop, budget: budget, yield: c > 0, execMenu: okOrErrMenu, bound: 0})
			}
		}
	}
	// a fallback that returns its input together with the error is still a failure
	for _, c := range []int{0, 1} {
		add(batchScn{name: fmt.Sprintf("stop-fallback-echo n=3 c=%d budget=2", c), n: 3, c: c, stop: true, budget: 2, fb: true, fbEcho: true, yield: c > 0, execMenu: okOrErrMenu, fbMenu: fbOkOrErr, bound: 1})
	}
	// the mode is re-read on every run: switch the SAME node between continue and stop with the builder method
	for _, c := range []int{0, 2} {
		for _, firstStop := range []bool{false, true} {
			firstStop := firstStop
			c := c
			nn := 3
			if c > 0 && !th {
				nn = 2
			}
			add(batchScn{name: fmt.Sprintf("stop-reconfigured-between-runs n=%d c=%d first-run-stop=%v", nn, c, firstStop), n: nn, c: c, stop: firstStop, budget: 1, yield: c > 0, execMenu: okOrErrMenu, bound: 0, runs: 2,
				reconf: func(nb *flyt.BatchNodeBuilder, run int) (bool, int) {
					nb.WithBatchErrorHandling(firstStop) // continueOnError = firstStop  =>  stop = !firstStop
					return !firstStop, c
				}})
		}
	}
	// c >= 2 workers
	for c := 2; c <= 3; c++ {
		for n := 2; n <= maxConc; n++ {
			if c == 3 && n > 4 && !th {
				continue
			}
			for f := 0; f < n; f++ {
				// free schedules: the failing worker itself must not start another item
				bd := 1
				if n <= 3 {
					bd = 2
				}
				if c == 3 && !th {
					bd = 1
					if n >= 4 {
						bd = 0 // every completion order (free switches at callbacks), no internal preemption
					}
				}
				if th && n <= 3 && c == 2 {
					bd = unbounded
				}
				add(batchScn{name: fmt.Sprintf("stop n=%d c=%d fail=%d stop=true budget=1", n, c, f), n: n, c: c, stop: true, budget: 1, yield: true, execMenu: failAtMenu(f), bound: bd})
				// gated schedules: up to c-1 other in-flight items are parked until the
				// failure has been handled; afterwards nothing new may start
				var others []int
				for i := 0; i < n; i++ {
					if i != f {
						others = append(others, i)
					}
				}
				for _, d := range subsetsOf(others, c-1) {
					add(batchScn{name: fmt.Sprintf("stop-gated n=%d c=%d fail=%d parked=%v", n, c, f, d), n: n, c: c, stop: true, budget: 1, execMenu: failAtMenu(f), park: d, bound: 1})
				}
			}
		}
	}
	// continue mode with concurrency: every slot is a real outcome
	for _, c := range []int{2} {
		for n := 2; n <= 3; n++ {
			add(batchScn{name: fmt.Sprintf("continue-scripted n=%d c=%d", n, c), n: n, c: c, stop: false, budget: 1, yield: true, execMenu: okOrErrMenu, bound: 1})
		}
	}
	return out
}

func subsetsOf(items []int, maxSize int) [][]int {
	var res [][]int
	for m := 1; m < 1<<len(items); m++ {
		var s []int
		for i := range items {
			if m&(1<<i) != 0 {
				s = append(s, items[i])
			}
		}
		if len(s) <= maxSize {
			res = append(res, s)
		}
	}
	return res
}

// ---------------------------------------------------------------- C11

func genC11(tier string) []Scenario {
	var out []Scenario
	th := tier == "thorough"
	maxN := 3
	cs := []int{0, 1, 2}
	if th {
		maxN = 4
		cs = []int{0, 1, 2, 3}
	}
	add := func(sc batchScn) {
		sc.chkCancel = true
		if sc.postMenu == nil {
			sc.postMenu = postX
		}
		sc.shape = shResults
		out = append(out, sc.scenario())
	}
	for _, c := range cs {
		for n := 1; n <= maxN; n++ {
			if c == 3 && n > 3 {
				continue
			}
			for _, stop := range []bool{false, true} {
				for _, budget := range []int{1, 2} {
					for _, wait := range []time.Duration{0, time.Hour} {
						if wait > 0 && budget == 1 {
							continue
						}
						if budget == 2 && n > 2 && c > 1 && !th {
							continue
						}
						for kind := 1; kind <= 2; kind++ {
							if kind == 2 && (stop || budget == 2) {
								continue // deadline-style error: one representative family
							}
							menu := okMenu
							if budget == 2 {
								menu = okOrErrMenu
							}
							base := fmt.Sprintf("cancel n=%d c=%d stop=%v budget=%d wait=%v kind=%d", n, c, stop, budget, wait, kind)
							bd := 1
							if c == 0 {
								bd = 0
							}
							if th && c > 0 && n <= 2 {
								bd = 2
							}
							add(batchScn{name: base + " before-run", n: n, c: c, stop: stop, budget: budget, wait: wait, yield: c > 0, execMenu: menu, bound: bd, cancel: cancelSpec{kind: kind, before: true}})
							add(batchScn{name: base + " inside-exec(lazy)", n: n, c: c, stop: stop, budget: budget, wait: wait, yield: c > 0, execMenu: menu, bound: bd, cancel: cancelSpec{kind: kind, lazy: true}})
						}
					}
				}
			}
		}
	}
	// a NEGATIVE wait is "no wait": the cancellation still ends the retries
	for _, c := range []int{0, 2} {
		add(batchScn{name: fmt.Sprintf("cancel n=2 c=%d budget=3 wait=-1s inside-exec(lazy)", c), n: 2, c: c, budget: 3, wait: -time.Second, negWait: true, yield: c > 0, execMenu: okOrErrMenu, bound: 0, cancel: cancelSpec{kind: 1, lazy: true}})
	}
	// a recovering fallback must not turn never-executed items into successes
	for _, c := range []int{0, 2} {
		for _, stop := range []bool{false, true} {
			nn, bb := 3, 1
			if c > 0 && !th {
				nn, bb = 3, 0
			}
			add(batchScn{name: fmt.Sprintf("cancel-with-fallback n=%d c=%d stop=%v budget=2", nn, c, stop), n: nn, c: c, stop: stop, budget: 2, fb: true, yield: c > 0, execMenu: okOrErrMenu,
				fbMenu: func(i int) []answer { return []answer{{val: 2000 + i}} }, bound: bb, cancel: cancelSpec{kind: 1, lazy: true}})
			add(batchScn{name: fmt.Sprintf("cancel-with-fallback n=3 c=%d stop=%v before-run", c, stop), n: 3, c: c, stop: stop, budget: 2, fb: true, yield: c > 0, execMenu: okOrErrMenu,
				fbMenu: func(i int) []answer { return []answer{{val: 2000 + i}} }, bound: 1, cancel: cancelSpec{kind: 1, before: true}})
		}
	}
	// a context cancelled WITH A CAUSE: the run's error must still match ctx.Err()
	for _, c := range []int{0, 2} {
		for _, stop := range []bool{false, true} {
			add(batchScn{name: fmt.Sprintf("cancel-with-cause n=2 c=%d stop=%v", c, stop), n: 2, c: c, stop: stop, budget: 1, yield: c > 0, execMenu: okMenu, bound: 1, withCause: true, cancel: cancelSpec{kind: 1, lazy: true}})
		}
	}
	// large batches cancelled before they start: every slot of every size carries an error
	sizeSweep(&out, "cancel-before", func(sc *batchScn) {
		sc.chkCancel = true
		sc.cancel = cancelSpec{kind: 1, before: true}
	})
	// the same node object after a run that ended badly (an item failed, post failed): the next
	// run, cancelled before it starts or from inside an item, is judged like any other
	for _, c := range []int{0, 2} {
		for _, stop := range []bool{false, true} {
			add(batchScn{name: fmt.Sprintf("cancel-rerun-after-failed-run n=2 c=%d stop=%v before-run", c, stop), n: 2, c: c, stop: stop, budget: 1, execMenu: okOrErrMenu, postMenu: postXOrErr, bound: 0, runs: 2, cancelFromRun: 1, cancel: cancelSpec{kind: 1, before: true}})
			add(batchScn{name: fmt.Sprintf("cancel-rerun-after-failed-run n=2 c=%d stop=%v lazy", c, stop), n: 2, c: c, stop: stop, budget: 1, execMenu: okOrErrMenu, postMenu: postXOrErr, bound: 0, runs: 2, cancelFromRun: 1, cancel: cancelSpec{kind: 1, lazy: true}})
		}
	}
	// the caller re-uses one slice object for its items: a cancelled run after successful ones must
	// not show the earlier runs' results in the slots of items it never executed
	for _, shape := range []int{shAny, shResults} {
		for _, c := range []int{0, 2} {
			for _, before := range []bool{true, false} {
				add2 := func(sc batchScn) { sc.chkCancel = true; sc.postMenu = postX; out = append(out, sc.scenario()) }
				add2(batchScn{name: fmt.Sprintf("cancel-same-slice-refilled %s n=3 c=%d runs=3 before=%v", shapeNames[shape], c, before), n: 3, c: c, shape: shape, sameSlice: true, budget: 1, execMenu: okMenu, bound: 0, runs: 3, cancelFromRun: 2, cancel: cancelSpec{kind: 1, before: before, lazy: !before}})
			}
		}
	}
	// three runs of one node object, the concurrency re-set between them (sequential / pooled in
	// every pattern), every pattern of context identities (the same cancellable context handed in
	// again, or a new one), every item failing its first attempt; the LAST run is cancelled from
	// inside an attempt: no further attempt, whatever the node kept from the earlier runs
	for _, ids := range [][]int{{0, 0, 0}, {0, 0, 1}, {0, 1, 0}, {0, 1, 1}, {0, 1, 2}} {
		for m := 0; m < 8; m++ {
			cs := []int{m & 1, m >> 1 & 1, m >> 2 & 1}
			for _, w := range []time.Duration{0, time.Hour} {
				if w > 0 && !(th || m == 2 || m == 5) {
					continue
				}
				add(batchScn{name: fmt.Sprintf("cancel-third-run contexts %v concurrency %v wait=%v n=2 budget=2", ids, cs, w), n: 2, c: cs[0], cByRun: cs, ctxByRun: ids, budget: 2, wait: w, execMenu: failFirstMenu, bound: 0, runs: 3, cancelFromRun: 2, cancel: cancelSpec{kind: 1, lazy: true}})
			}
		}
	}
	// more items than workers + queue: the submitter itself is blocked while the workers sit in a
	// one-hour retry wait when the cancellation arrives
	for _, c := range []int{1, 2} {
		n := 3*c + 1
		add(batchScn{name: fmt.Sprintf("cancel-full-queue n=%d c=%d budget=2 wait=1h", n, c), n: n, c: c, budget: 2, wait: time.Hour, execMenu: failFirstMenu, bound: 0, cancel: cancelSpec{kind: 1, lazy: true}})
		out = append(out, waitScn{kind: -1, w: time.Hour, n: 2, items: n, c: c, cancelJ: 0, d: time.Minute, bound: 0}.scenario())
	}
	// cancellation arriving asynchronously DURING a retry wait (short and long waits): no further attempt
	for _, c := range []int{0, 2} {
		for _, w := range []time.Duration{500 * time.Microsecond, time.Hour} {
			for j := 0; j < 2; j++ {
				out = append(out, waitScn{kind: -1, w: w, n: 2, items: 2, c: c, cancelJ: j, d: w / 2, bound: 1}.scenario())
			}
			// attempts that take longer than the wait, cancelled right when one ends
			out = append(out, waitScn{kind: -1, w: w, n: 3, items: 1, c: c, cancelJ: 0, d: 0, bound: 2, execDur: 2 * w}.scenario())
		}
	}
	return out
}

var _ = flyt.DefaultAction
