package main

// batch.go: the shared driver for batch-node scenarios (C02 batch items, C06,
// C07, C08, C09, C11, C17, C18, C20).  One real flyt batch node is run under
// the controlled scheduler; item callbacks record what happened in Cells
// (events in the state key) and answer from lazily enumerated menus.

import (
	"context"
	"errors"
	"fmt"
	"sort"
	"strings"
	"time"
	"unsafe"

	flyt "github.com/mark3labs/flyt"
	"github.com/mark3labs/flyt/zzvrt/core"
)

// prep payload shapes
const (
	shResults = iota // builder WithPrepFunc: []flyt.Result
	shAny            // []any
	shInts           // []int (ToSlice fast path)
	shStructs        // []itemT (reflection path)
	shSingle         // a single non-slice value  => 1 item
	shNil            // nil => 0 items
	shNoPrep         // no prep function at all => 0 items
)

var shapeNames = [...]string{"[]Result", "[]any", "[]int", "[]struct", "single", "nil", "no-prep"}

type itemT struct{ ID int }

type cancelSpec struct {
	kind    int // 0 none, 1 cancel, 2 deadline-style error
	before  bool
	item    int  // cancel from inside exec of this item ...
	attempt int  // ... at this attempt (inline, at entry)
	lazy    bool // instead of (item,attempt): at every exec entry choose whether to cancel now
}

type batchScn struct {
	name   string
	n, c   int
	stop   bool
	budget int
	fb     bool
	wait   time.Duration
	shape  int
	yield  bool // exec yields after entry: free switch point => all completion orders
	bound  int
	// menus (index 0 = default answer)
	execMenu func(item, attempt int) []answer
	fbMenu   func(item int) []answer
	postMenu []answer
	prepErr  bool // prep fails (post must not be called)
	anyExec  bool // use WithExecFuncAny
	execVia  int  // which sibling route installs the exec function (viaBuilderR = default)
	noPost   bool // no post function configured
	// special behaviours
	park          []int      // items that park (scheduler-visible) until a terminal failure has been handled
	barrier       []int      // items that block until all of them have arrived (C08 usability)
	fast          []int      // items whose exec does not take execDur (they finish while the others are still running)
	stagger       bool       // item i takes (i+1)*execDur
	unwrap        bool       // hand flyt the *BatchNode inside the builder instead of the builder
	nByRun        []int      // item count of each run (repeated runs of one node object); default n
	budgetByRun   []int      // retry budget of each run (set with the builder method before the run)
	cByRun        []int      // batch concurrency of each run (builder method before the run)
	cDetour       bool       // before every later run the concurrency is first set to another value, then to the run's
	stopByRun     []bool     // stop-on-error mode of each run (builder method before the run)
	cancelFromRun int        // the cancel spec applies to runs with at least this index (earlier runs are not cancelled)
	negWait       bool       // the (negative) wait is configured as it is: WithWait(sc.wait) although sc.wait <= 0
	sameSlice     bool       // prep hands back THE SAME slice object in every run ([]Result or []any), refilled in place with that run's items (a caller re-using its buffer)
	ctxByRun      []int      // which context OBJECT each run receives (equal numbers: the same cancellable context again); only for scenarios whose last run alone is cancelled
	feedback      bool       // repeated runs: the result slice post received becomes, AS IT IS, the items of the next run
	cancel        cancelSpec // cancellation injection
	// oracle groups
	chkPositional, chkPerItem, chkLimit, chkStop, chkCancel, chkAction, chkWait bool
	inFlow                                                                      bool                                                        // run as the first node of a flow whose default edge leads to a witness
	execDur                                                                     time.Duration                                               // every exec takes this much virtual time
	errItems                                                                    []int                                                       // these items are handed out by prep as error Results (exec must still be called for them)
	runs                                                                        int                                                         // run the SAME batch node object this many times (default 1)
	reconf                                                                      func(nb *flyt.BatchNodeBuilder, run int) (stop bool, c int) // builder-style reconfiguration before run #run (>=1)
	withCause                                                                   bool                                                        // the context is cancelled with a cause that differs from its Err()
	deadline                                                                    time.Duration                                               // >0: the context has a deadline this far (virtual time) after the run starts
	fbEcho                                                                      bool                                                        // the fallback menu also offers "return the item itself together with the error"
}

// itemState: written by the thread processing the item; read by the main
// thread in post (ordered by the pool's Wait) — plain fields.  Counters that
// threads read concurrently are Cells.
type itemState struct {
	entries         core.Cell[int] // exec entries
	fbCalls         core.Cell[int]
	answers         []answer
	fbAnswer        *answer
	threads         []int
	startT          []int64
	endT            []int64
	badArg          string
	settled         bool // the item's processing is over (success, or failure for good)
	settledAtCancel bool
}

type BR struct {
	sc                     *batchScn
	stop                   bool // current error-handling mode of the node (may be reconfigured between runs)
	c                      int  // current concurrency
	runIdx                 int
	stdCancel              context.CancelCauseFunc
	h                      *brHolder
	payload                []any
	it                     []itemState
	inflight               core.Cell[int]
	maxIn                  core.Cell[int]
	postCalls              int
	postItems, postResults []flyt.Result
	ctx                    *core.Ctx
	ctxErr                 error
	// stop / cancel bookkeeping
	failedBy         core.Cell[int] // thread id+1 of the worker whose item failed terminally (first)
	failedWorkers    map[int]bool   // threads whose own item failed terminally (only touched by that thread)
	phase            core.Cell[int] // 0 none, 1 failure returned, 2 failure handled (quiesced)
	cancelled        core.Cell[int] // thread id+1 of the canceller
	afterCancel      map[int]int    // exec entries per thread after the cancellation (main-thread reads after run)
	acMu             core.Cell[int]
	arrived          core.Cell[int] // barrier arrivals
	witness          bool
	postAnswer       *answer
	runOver          core.Cell[bool]
	action           flyt.Action
	err              error
	runStart, runEnd int64
	lastCbEnd        int64
	cancelAt         int64
}

func (sc *batchScn) payloads() []any {
	p := make([]any, sc.n)
	for i := range p {
		switch sc.shape {
		case shStructs:
			p[i] = itemT{ID: i}
		default:
			p[i] = 100 + i
		}
	}
	return p
}

func (b *BR) index(v any) int {
	if e, ok := v.(error); ok {
		for i, pe := range prepItemErr {
			if e == pe {
				return i
			}
		}
		return -1
	}
	switch x := v.(type) {
	case int:
		if x >= 1000 {
			return x % 1000 // a fed-back result of an earlier run
		}
		return x - 100
	case itemT:
		return x.ID
	}
	return -1
}

var itemErrCache = map[[2]int]error{}

func itemErr(i, k int) error {
	if i < len(errTable) && k < len(errTable[i]) {
		return errTable[i][k]
	}
	key := [2]int{i, k}
	if e, ok := itemErrCache[key]; ok {
		return e
	}
	e := fmt.Errorf("item%d-attempt%d-failed", i, k)
	itemErrCache[key] = e
	return e
}

var errTable = func() [][]error {
	t := make([][]error, 12)
	for i := range t {
		for k := 0; k < 8; k++ {
			t[i] = append(t[i], fmt.Errorf("item%d-attempt%d-failed", i, k))
		}
	}
	return t
}()

var fbErrTable = func() []error {
	var t []error
	for i := 0; i < 12; i++ {
		t = append(t, fmt.Errorf("item%d-fallback-failed", i))
	}
	return t
}()

func okVal(i int) any { return 1000 + i } // tag(item)

// brHolder: the node object and its callbacks outlive a single run; the callbacks
// report to whichever run is current.
type brHolder struct {
	lastStop          bool // what the previous run was configured with (see BR.run)
	lastC, lastBudget int
	prevResults       []flyt.Result // feedback mode: what post received in the previous run
	ctxs              map[int]*core.Ctx
	bufAny            []any // sameSlice mode: the one slice object prep returns in every run
	bufRes            []flyt.Result
	cur               *BR
	nb                *flyt.BatchNodeBuilder
	store             *flyt.SharedStore
}

func (sc *batchScn) scenario() Scenario {
	var b *BR
	body := func() {
		h := &brHolder{}
		runs := sc.runs
		if runs < 1 {
			runs = 1
		}
		stop, c := sc.stop, sc.c
		for r := 0; r < runs; r++ {
			scr := sc
			if r < len(sc.nByRun) || r < len(sc.budgetByRun) {
				// this run of the same node object has its own number of items / retry budget
				cp := *sc
				if r < len(sc.nByRun) {
					cp.n = sc.nByRun[r]
				}
				if r < len(sc.budgetByRun) {
					cp.budget = sc.budgetByRun[r]
				}
				scr = &cp
			}
			b = &BR{sc: scr, h: h, runIdx: r, payload: scr.payloads(), it: make([]itemState, scr.n), afterCancel: map[int]int{}}
			if (sc.feedback || sc.sameSlice) && r > 0 {
				for i := range b.payload {
					b.payload[i] = 1000*r + i // = what run r-1 produced for item i
				}
			}
			h.cur = b
			if r > 0 && sc.reconf != nil {
				stop, c = sc.reconf(h.nb, r)
			}
			if r < len(sc.cByRun) {
				c = sc.cByRun[r]
			}
			if r < len(sc.stopByRun) {
				stop = sc.stopByRun[r]
			}
			b.stop, b.c = stop, c
			b.run()
		}
	}
	check := func(x *core.Execution) (string, []string) {
		var pr []string
		if x.Deadlock != "" {
			pr = append(pr, "deadlock (the batch never terminates): "+x.Deadlock)
		}
		if x.Panic != "" {
			pr = append(pr, x.Panic)
		}
		pr = append(pr, x.Races...)
		if x.Horizon {
			return "horizon", pr
		}
		if b == nil {
			return "?", pr
		}
		return b.outcome(), pr
	}
	return Scenario{Name: sc.name + boundName(sc.bound), Bound: sc.bound, Body: body, Check: check}
}

func (b *BR) outcome() string {
	var sb strings.Builder
	fmt.Fprintf(&sb, "act=%q err=%v post=%d max=%d;", b.action, b.err != nil, b.postCalls, b.maxIn.Get())
	for i := range b.it {
		fmt.Fprintf(&sb, "%d:e%d/f%d", i, b.it[i].entries.Get(), b.it[i].fbCalls.Get())
		if i < len(b.postResults) {
			if b.postResults[i].IsError() {
				sb.WriteString("E")
			} else {
				sb.WriteString("v")
			}
		}
		sb.WriteString(",")
	}
	return sb.String()
}

func (b *BR) run() {
	sc := b.sc
	var ctx context.Context = context.Background()
	if sc.deadline > 0 {
		c, _ := core.WithDeadline(context.Background(), core.Now().Add(sc.deadline))
		ctx = c
	}
	if len(sc.ctxByRun) > 0 {
		// context identities across the runs of one node object: a live cancellable context per
		// number, handed in again wherever the number repeats; only the last run cancels its own
		if b.h.ctxs == nil {
			b.h.ctxs = map[int]*core.Ctx{}
		}
		id := sc.ctxByRun[b.runIdx]
		c := b.h.ctxs[id]
		if c == nil {
			c, _ = core.WithCancel(context.Background())
			b.h.ctxs[id] = c
		}
		ctx = c
		if sc.cancel.kind != 0 && b.runIdx >= sc.cancelFromRun {
			b.ctx = c
			b.ctxErr = context.Canceled
			if sc.cancel.before {
				b.cancelNow()
			}
		}
	} else if sc.cancel.kind != 0 && b.runIdx >= sc.cancelFromRun {
		var parent context.Context = context.Background()
		if sc.withCause {
			// a standard cancel-with-cause context as parent: context.Cause(ctx) then differs from ctx.Err()
			parent, b.stdCancel = context.WithCancelCause(context.Background())
		}
		c, _ := core.WithCancel(parent)
		b.ctx = c
		ctx = c
		b.ctxErr = context.Canceled
		if sc.cancel.kind == 2 {
			b.ctxErr = context.DeadlineExceeded
		}
		if sc.cancel.before {
			b.cancelNow()
		}
	}
	if b.h.nb == nil {
		b.h.nb, b.h.store = b.buildNode()
	}
	nb, store := b.h.nb, b.h.store
	// re-configuration (through the builder methods) before the run — only what differs from the
	// previous run is set again: mode first, then the concurrency (optionally by way of another
	// value), then the budget
	hd := b.h
	if len(sc.stopByRun) > 0 && (b.runIdx == 0 || hd.lastStop != b.stop) {
		nb.WithBatchErrorHandling(!b.stop)
	}
	if len(sc.cByRun) > 0 && (b.runIdx == 0 || hd.lastC != b.c || sc.cDetour) {
		if sc.cDetour && b.runIdx > 0 {
			nb.WithBatchConcurrency(b.c + 1)
		}
		nb.WithBatchConcurrency(b.c)
	}
	if len(sc.budgetByRun) > 0 && (b.runIdx == 0 || hd.lastBudget != sc.budget) {
		nb.WithMaxRetries(sc.budget)
	}
	hd.lastStop, hd.lastC, hd.lastBudget = b.stop, b.c, sc.budget
	b.execute(ctx, nb, store)
}

// cancelNow cancels the run's context from the calling thread.
func (b *BR) cancelNow() {
	if b.stdCancel != nil {
		b.stdCancel(errCustomCause)
	}
	b.ctx.CancelInline(b.ctxErr)
	b.cancelled.Set(core.CurThread() + 1)
	b.cancelAt = core.VNow()
	for i := range b.it {
		b.it[i].settledAtCancel = b.it[i].settled
	}
}

var errCustomCause = errors.New("custom-cancel-cause")

// buildNode constructs the batch node once; its callbacks report to the current run.
func (b *BR) buildNode() (*flyt.BatchNodeBuilder, *flyt.SharedStore) {
	sc := b.sc
	h := b.h
	execR := func(ctx context.Context, it flyt.Result) (flyt.Result, error) {
		var v any = it.Value()
		if it.IsError() {
			v = it.Error() // error items are identified by their error
		}
		a := h.cur.onExec(ctx, v, it.IsError())
		if a.err != nil {
			return flyt.Result{}, a.err
		}
		if e, ok := a.val.(errResultMarker); ok { // exec returns an error RESULT with nil error
			return flyt.NewErrorResult(e.err), nil
		}
		return flyt.NewResult(a.val), nil
	}
	execA := func(ctx context.Context, v any) (any, error) {
		a := h.cur.onExec(ctx, v, false)
		return a.val, a.err
	}
	fbFunc := func(p any, err error) (any, error) { return h.cur.onFallback(p, err) }
	var ctorOpts []any
	if sc.fb && (sc.execVia == viaOptionR || sc.execVia == viaOptionAny) {
		// the public way of giving a batch node a fallback (the overlay hook is used elsewhere
		// because the pinned tree ignored constructor options)
		ctorOpts = append(ctorOpts, flyt.WithExecFallbackFunc(fbFunc))
	}
	switch sc.execVia {
	case viaOptionR:
		ctorOpts = append(ctorOpts, flyt.WithExecFunc(execR))
	case viaOptionAny:
		ctorOpts = append(ctorOpts, flyt.WithExecFuncAny(execA))
	}
	nb := flyt.NewBatchNode(ctorOpts...).WithMaxRetries(sc.budget).WithBatchConcurrency(sc.c)
	if sc.stop {
		nb = nb.WithBatchErrorHandling(false)
	}
	if sc.wait > 0 || sc.negWait {
		nb = nb.WithWait(sc.wait)
	}
	store := flyt.NewSharedStore()
	prepItems := func() []flyt.Result {
		if sc.feedback && h.cur.runIdx > 0 && h.prevResults != nil {
			return h.prevResults // the very slice the previous run handed to post
		}
		r := make([]flyt.Result, len(h.cur.payload))
		if sc.sameSlice {
			if cap(h.bufRes) < len(r) {
				h.bufRes = make([]flyt.Result, len(r), len(r)+8)
			}
			h.bufRes = h.bufRes[:len(r)]
			r = h.bufRes
		}
		for i, p := range h.cur.payload {
			r[i] = flyt.NewResult(p)
			if contains(sc.errItems, i) {
				r[i] = flyt.NewErrorResult(prepItemErr[i])
			}
		}
		return r
	}
	switch sc.shape {
	case shResults:
		nb = nb.WithPrepFunc(func(ctx context.Context, st *flyt.SharedStore) ([]flyt.Result, error) {
			if st != store {
				core.Problem("batch prep received a different store")
			}
			if sc.prepErr {
				return nil, errPrep
			}
			return prepItems(), nil
		})
	case shNoPrep:
	default:
		flyt.ZZSetPrep(nb, func(ctx context.Context, st *flyt.SharedStore) (any, error) {
			if sc.prepErr {
				return nil, errPrep
			}
			switch sc.shape {
			case shAny:
				if sc.sameSlice {
					if cap(h.bufAny) < len(h.cur.payload) {
						h.bufAny = make([]any, 0, len(h.cur.payload)+8)
					}
					h.bufAny = append(h.bufAny[:0], h.cur.payload...)
					return h.bufAny, nil
				}
				return append([]any(nil), h.cur.payload...), nil
			case shInts:
				l := make([]int, len(h.cur.payload))
				for i, p := range h.cur.payload {
					l[i] = p.(int)
				}
				return l, nil
			case shStructs:
				l := make([]itemT, len(h.cur.payload))
				for i, p := range h.cur.payload {
					l[i] = p.(itemT)
				}
				return l, nil
			case shSingle:
				return h.cur.payload[0], nil
			}
			return nil, nil
		})
	}
	switch {
	case sc.execVia == viaOptionR || sc.execVia == viaOptionAny:
	case sc.anyExec || sc.execVia == viaBuilderAny:
		nb = nb.WithExecFuncAny(execA)
	default:
		nb = nb.WithExecFunc(execR)
	}
	if sc.fb && !(sc.execVia == viaOptionR || sc.execVia == viaOptionAny) {
		flyt.ZZSetFallback(nb, fbFunc)
	}
	if !sc.noPost {
		nb = nb.WithPostFunc(func(ctx context.Context, st *flyt.SharedStore, items, results []flyt.Result) (flyt.Action, error) {
			return h.cur.onPost(st == store, items, results)
		})
	}
	return nb, store
}

// execute performs one run of the node.
func (b *BR) execute(ctx context.Context, nb *flyt.BatchNodeBuilder, store *flyt.SharedStore) {
	sc := b.sc
	if len(sc.park) > 0 {
		// observer: once a terminal failure has been returned, wait until nothing
		// else can run (the failure has been handled), then release the parked items
		core.Go("harness:observer", func() {
			core.Block("await-failure", func() bool { return b.phase.Peek() >= 1 || b.runOver.Peek() })
			if b.phase.Get() == 1 {
				core.WaitQuiescent()
				core.Logf("failure handled: releasing parked items")
				b.phase.Set(2)
			}
		})
	}
	b.runStart = core.VNow()
	unwrap := sc.unwrap
	if !unwrap && sc.runs > 1 {
		unwrap = b.runIdx%2 == 1 // both forms on the same node object, alternating
	} else if !unwrap && sc.bound == 0 && sc.n <= 3 {
		// entry form is a driver choice in the cheap scenarios: the builder, or the *BatchNode inside it
		unwrap = core.Choose(2) == 1
	}
	if unwrap {
		core.Logf("entry form: bare *BatchNode")
	}
	if sc.inFlow {
		wit := flyt.NewNode().WithExecFuncAny(func(context.Context, any) (any, error) {
			b.witness = true
			return nil, nil
		})
		var n flyt.Node = nb
		if unwrap {
			n = nb.BatchNode
		}
		f := flyt.NewFlow(n).Connect(n, flyt.DefaultAction, wit)
		b.err = f.Run(ctx, store)
	} else if unwrap {
		// the *BatchNode inside the builder is an exported field and Run dispatches on it as well
		b.action, b.err = flyt.Run(ctx, nb.BatchNode, store)
	} else {
		b.action, b.err = flyt.Run(ctx, nb, store)
	}
	b.runEnd = core.VNow()
	b.runOver.Set(true)
	core.Logf("Run returned (%q, %v)", b.action, b.err)
	live := core.WaitQuiescent()
	if n := b.inflight.Get(); len(live) > 0 && n > 0 {
		// goroutines that merely sit idle after the run (a pool kept for the next run, say) are not
		// the business of the batch properties; an item execution that never comes back is
		core.Problem("batch run returned while %d item execution(s) are still in flight and never finish (%s)", n, strings.Join(live, ", "))
	}
	b.finalChecks()
}

type errResultMarker struct{ err error }

// the four ways of giving a batch node its exec function
const (
	viaBuilderR = iota
	viaBuilderAny
	viaOptionR
	viaOptionAny
)

var viaNames = []string{"builder.WithExecFunc", "builder.WithExecFuncAny", "option WithExecFunc", "option WithExecFuncAny"}

var prepItemErr = func() []error {
	var l []error
	for i := 0; i < 12; i++ {
		l = append(l, fmt.Errorf("prep-item-%d-is-an-error-result", i))
	}
	return l
}()

func (b *BR) onExec(ctx context.Context, v any, argIsErr bool) answer {
	sc := b.sc
	i := b.index(v)
	if i < 0 || i >= sc.n {
		core.Problem("exec received %s which is not one of prep's items", descVal(v))
		return answer{val: nil}
	}
	if !argIsErr && !sameValue(v, b.payload[i]) {
		core.Problem("exec received %s; this run's prep produced %s at position %d (an item of an earlier run?)", descVal(v), descVal(b.payload[i]), i)
	}
	st := &b.it[i]
	k := st.entries.Get()
	st.entries.Set(k + 1)
	tid := core.CurThread()
	st.threads = append(st.threads, tid)
	st.startT = append(st.startT, core.VNow())
	in := b.inflight.Get() + 1
	b.inflight.Set(in)
	if in > b.maxIn.Get() {
		b.maxIn.Set(in)
	}
	core.Logf("exec item %d attempt %d enter (in flight %d)", i, k, in)
	if argIsErr != contains(sc.errItems, i) {
		core.Problem("exec of item %d received IsError()=%v, prep produced IsError()=%v for that item", i, argIsErr, !argIsErr)
	}
	// ---- C08 upper bound
	if sc.chkLimit {
		lim := b.c
		if lim <= 0 {
			lim = 1
		}
		if in > lim {
			core.Problem("%d item executions in flight with concurrency %d", in, b.c)
		}
		if b.c == 0 && k == 0 {
			for j := 0; j < i; j++ {
				if b.it[j].entries.Get() == 0 {
					core.Problem("sequential batch started item %d before item %d", i, j)
				}
			}
			for j := i + 1; j < sc.n; j++ {
				if b.it[j].entries.Get() > 0 {
					core.Problem("sequential batch started item %d after item %d", i, j)
				}
			}
		}
	}
	// ---- C09: nothing new on the worker that observed a failure; nothing new once it has been handled
	if sc.chkStop && b.stop {
		if fbid := b.failedBy.Get(); fbid != 0 {
			if b.c <= 1 {
				core.Problem("stop-on-error: item %d attempt %d executed after an item had already failed (concurrency %d)", i, k, b.c)
			} else if fbid == tid+1 || b.failedWorkers[tid] {
				core.Problem("stop-on-error: worker T%d started item %d after the item it processed had failed", tid, i)
			} else if b.phase.Get() == 2 && k == 0 {
				core.Problem("stop-on-error: item %d was started after the failure had been handled (only already picked-up items may run)", i)
			}
		}
	}
	// ---- C11: after the cancellation
	if c := b.cancelled.Get(); c != 0 {
		b.afterCancel[tid]++
		if sc.chkCancel {
			if sc.cancel.before {
				core.Problem("exec of item %d attempt %d entered although the context was cancelled before the run", i, k)
			} else if b.c == 0 {
				core.Problem("sequential batch: exec of item %d attempt %d entered after the context was cancelled", i, k)
			} else if c == tid+1 {
				core.Problem("worker T%d, which cancelled the context itself, entered exec of item %d attempt %d afterwards", tid, i, k)
			} else if b.afterCancel[tid] > 1 {
				core.Problem("worker T%d entered exec %d times after the cancellation (at most one committed execution is allowed)", tid, b.afterCancel[tid])
			}
		}
	}
	// ---- cancellation injected from inside this exec
	if b.ctx != nil && b.cancelled.Get() == 0 && !sc.cancel.before {
		fire := false
		if sc.cancel.lazy {
			fire = core.Choose(2) == 1
		} else {
			fire = sc.cancel.item == i && sc.cancel.attempt == k
		}
		if fire {
			core.Logf("cancel from inside exec item %d attempt %d", i, k)
			b.cancelNow()
		}
	}
	if sc.yield {
		core.Yield()
	}
	if sc.execDur > 0 && !contains(sc.fast, i) {
		d := sc.execDur
		if sc.stagger {
			d *= time.Duration(i + 1) // distinct completion instants: far fewer equivalent wake-up orders
		}
		core.Sleep(d)
	}
	// ---- C08 usability: mutually dependent items
	if contains(sc.barrier, i) && k == 0 {
		b.arrived.Set(b.arrived.Get() + 1)
		need := 0 // (the barrier items that exist in THIS run: runs of one node may differ in size)
		for _, d := range sc.barrier {
			if d < sc.n {
				need++
			}
		}
		core.Block("barrier", func() bool { return b.arrived.Peek() >= need })
		b.arrived.Get()
	}
	// ---- C09 gating: park until the failure has been handled
	if contains(sc.park, i) && k == 0 {
		core.Block("parked", func() bool { return b.phase.Peek() == 2 })
		b.phase.Get()
	}
	m := sc.execMenu(i, k)
	a := m[core.Choose(len(m))]
	if sc.feedback && a.err == nil && a.val == okVal(i) {
		a.val = 1000*(b.runIdx+1) + i // every run produces its own values: results never equal the items
	}
	st.answers = append(st.answers, a)
	b.inflight.Set(b.inflight.Get() - 1)
	st.endT = append(st.endT, core.VNow())
	b.lastCbEnd = core.VNow()
	core.Logf("exec item %d attempt %d -> val=%s err=%v", i, k, descVal(a.val), a.err)
	if a.err == nil {
		st.settled = true
	}
	// terminal failure of this item?
	if b.stop && b.terminalFailure(i, a) && !sc.fb {
		// EVERY worker whose item failed for good has observed a failure (not only the first)
		if b.failedWorkers == nil {
			b.failedWorkers = map[int]bool{}
		}
		b.failedWorkers[tid] = true
		if b.failedBy.Get() == 0 {
			b.failedBy.Set(tid + 1)
			b.phase.Set(1)
		}
	}
	return a
}

// terminalFailure: this attempt failed and no further attempt will be made.
func (b *BR) terminalFailure(i int, a answer) bool {
	if a.err == nil {
		return false
	}
	return len(b.it[i].answers) >= b.effBudget()
}

func (b *BR) effBudget() int {
	if b.sc.budget < 1 {
		return 0
	}
	return b.sc.budget
}

func (b *BR) onFallback(p any, err error) (any, error) {
	sc := b.sc
	// the item arrives as a flyt.Result
	var v any = p
	if r, ok := p.(flyt.Result); ok {
		v = r.Value()
		if r.IsError() {
			v = r.Error()
		}
	}
	i := b.index(v)
	if i < 0 || i >= sc.n {
		core.Problem("fallback received %s which is not one of prep's items", descVal(p))
		return nil, err
	}
	st := &b.it[i]
	st.fbCalls.Set(st.fbCalls.Get() + 1)
	core.Logf("fallback item %d err=%v", i, err)
	if sc.chkPerItem {
		if n := len(st.answers); n == 0 || st.answers[n-1].err == nil {
			core.Problem("fallback of item %d invoked although its last attempt did not fail", i)
		} else if err != st.answers[n-1].err && (err == nil || !errors.Is(err, st.answers[n-1].err)) {
			core.Problem("fallback of item %d received error %v, want the error of its last attempt %v", i, err, st.answers[n-1].err)
		}
		if n := len(st.answers); n != b.effBudget() && b.cancelled.Get() == 0 {
			core.Problem("fallback of item %d invoked after %d attempts, budget is %d", i, n, b.effBudget())
		}
	}
	m := sc.fbMenu(i)
	if sc.fbEcho {
		// a fallback that hands back its input together with the error
		m = append(append([]answer(nil), m...), answer{val: p, err: fbErrTable[i]})
	}
	a := m[core.Choose(len(m))]
	st.fbAnswer = &a
	b.lastCbEnd = core.VNow()
	if b.stop && a.err != nil && b.failedBy.Get() == 0 {
		b.failedBy.Set(core.CurThread() + 1)
		b.phase.Set(1)
	}
	return a.val, a.err
}

func (b *BR) onPost(sameStore bool, items, results []flyt.Result) (flyt.Action, error) {
	sc := b.sc
	b.postCalls++
	b.postItems, b.postResults = items, results
	core.Logf("post items=%d results=%d", len(items), len(results))
	for i := range results {
		// post reads every slot: must be ordered after the worker's write (race detector)
		core.Read(unsafe.Pointer(&results[i]), fmt.Sprintf("result slot %d read in post", i))
	}
	if !sameStore {
		core.Problem("batch post received a different store")
	}
	if sc.chkPositional {
		if b.postCalls > 1 {
			core.Problem("batch post called %d times", b.postCalls)
		}
		if in := b.inflight.Get(); in != 0 {
			core.Problem("batch post called while %d item execution(s) are still in flight", in)
		}
		want := sc.n
		if sc.shape == shSingle {
			want = 1
		}
		if sc.shape == shNil || sc.shape == shNoPrep {
			want = 0
		}
		if len(items) != want {
			core.Problem("post received %d items, prep produced %d", len(items), want)
		}
		if len(results) != len(items) {
			core.Problem("post received %d results for %d items", len(results), len(items))
		}
		for i := 0; i < len(items) && i < want; i++ {
			if contains(sc.errItems, i) {
				if !items[i].IsError() || items[i].Error() != prepItemErr[i] {
					core.Problem("post item %d lost its error state", i)
				}
			} else if items[i].IsError() || !sameValue(items[i].Value(), b.payload[i]) {
				core.Problem("post item %d is %s, prep produced %s at that position", i, descVal(items[i].Value()), descVal(b.payload[i]))
			}
		}
	}
	b.checkSlots(results)
	b.h.prevResults = results
	b.lastCbEnd = core.VNow()
	a := sc.postMenu[core.Choose(len(sc.postMenu))]
	b.postAnswer = &a
	return a.action, a.err
}

// expectedSlot: the reference outcome of item i from ITS OWN script only.
// ran=false: the item was never executed.
func (b *BR) expectedSlot(i int) (ran bool, val any, err error, complete bool) {
	st := &b.it[i]
	if len(st.answers) == 0 {
		return false, nil, nil, true
	}
	last := st.answers[len(st.answers)-1]
	if last.err == nil {
		if e, ok := last.val.(errResultMarker); ok {
			return true, nil, e.err, true
		}
		return true, last.val, nil, true
	}
	if st.fbAnswer != nil {
		return true, st.fbAnswer.val, st.fbAnswer.err, true
	}
	return true, nil, last.err, len(st.answers) >= b.effBudget()
}

func (b *BR) checkSlots(results []flyt.Result) {
	sc := b.sc
	for i := 0; i < sc.n && i < len(results); i++ {
		st := &b.it[i]
		r := results[i]
		ran, val, err, complete := b.expectedSlot(i)
		if !ran {
			// C09 / C11: an item whose processing never ran is never presented as a success
			if (sc.chkStop || sc.chkCancel || sc.chkPositional) && !r.IsError() {
				core.Problem("item %d was never executed but its result slot is a success (value %s)", i, descVal(r.Value()))
			}
			continue
		}
		if sc.chkPositional || sc.chkPerItem || sc.chkStop || sc.chkCancel {
			switch {
			case err != nil:
				if !r.IsError() {
					core.Problem("result %d is a success (%s) but item %d ended with error %v", i, descVal(r.Value()), i, err)
				} else if !errors.Is(r.Error(), err) && complete && b.cancelled.Get() == 0 {
					core.Problem("result %d carries error %q, want item %d's own error %q", i, r.Error(), i, err)
				}
			default:
				if r.IsError() {
					if b.cancelled.Get() == 0 || sc.chkPositional {
						// result i is the outcome of processing item i: an execution that returned a
						// value keeps it, whether or not a cancellation arrived meanwhile
						core.Problem("result %d is error %q but item %d succeeded with %s", i, r.Error(), i, descVal(val))
					} else if st.settledAtCancel {
						core.Problem("result %d is error %q but item %d had already succeeded with %s BEFORE the cancellation", i, r.Error(), i, descVal(val))
					}
				} else if !sameValue(r.Value(), val) {
					core.Problem("result %d is %s, want the outcome of item %d: %s", i, descVal(r.Value()), i, descVal(val))
				}
			}
		}
		if sc.chkPerItem && b.cancelled.Get() == 0 {
			// every item that IS executed gets exactly its own budget and fallback,
			// in stop mode too (an item that was never started is judged by C09)
			b.checkItemScript(i, st)
		}
	}
}

// checkItemScript: C02/C07 per-item budget and fallback rules.
func (b *BR) checkItemScript(i int, st *itemState) {
	n := len(st.answers)
	N := b.effBudget()
	firstOK := -1
	for k, a := range st.answers {
		if a.err == nil {
			firstOK = k
			break
		}
	}
	switch {
	case firstOK >= 0 && firstOK != n-1:
		core.Problem("item %d: %d attempts made although attempt %d succeeded", i, n, firstOK)
	case firstOK < 0 && n != N:
		core.Problem("item %d: %d failing attempts made with budget %d", i, n, N)
	case n > N:
		core.Problem("item %d: %d attempts exceed budget %d", i, n, N)
	}
	wantFb := 0
	if firstOK < 0 && b.sc.fb {
		wantFb = 1
	}
	if got := st.fbCalls.Get(); got != wantFb {
		core.Problem("item %d: fallback invoked %d times, want %d", i, got, wantFb)
	}
	if st.entries.Get() != n {
		core.Problem("item %d: entries %d != answers %d", i, st.entries.Get(), n)
	}
}

func (b *BR) finalChecks() {
	sc := b.sc
	if (b.action != "") == (b.err != nil) && !sc.inFlow {
		core.Problem("batch run returned (%q, %v): want exactly one of action / error", b.action, b.err)
	}
	if sc.prepErr {
		if b.postCalls != 0 {
			core.Problem("post called although prep failed")
		}
		if b.err == nil || !errors.Is(b.err, errPrep) {
			core.Problem("prep error not reported: %v", b.err)
		}
		return
	}
	if b.postAnswer != nil && b.postAnswer.err != nil {
		if b.err == nil || !errors.Is(b.err, b.postAnswer.err) {
			core.Problem("post failed with %v but the batch run returned (%q, %v)", b.postAnswer.err, b.action, b.err)
		}
	}
	cancelled := b.cancelled.Get() != 0
	if sc.chkPositional && !cancelled {
		if b.postCalls != 1 && !sc.noPost {
			core.Problem("batch post called %d times, want exactly once", b.postCalls)
		}
	}
	if sc.chkPerItem && !b.stop && !cancelled {
		for i := range b.it {
			if b.it[i].entries.Get() == 0 {
				core.Problem("continue mode: item %d was never processed", i)
			}
			if sc.noPost {
				b.checkItemScript(i, &b.it[i])
			}
		}
	}
	if b.stop && !cancelled && (sc.chkPositional || sc.chkStop || sc.chkPerItem) && b.postCalls > 0 {
		// stop-on-error skips items only because an item of THIS run has failed
		failed, skipped := false, -1
		for i := range b.it {
			ran, _, err, _ := b.expectedSlot(i)
			if ran && err != nil {
				failed = true
			}
			if !ran && skipped < 0 {
				skipped = i
			}
		}
		if skipped >= 0 && !failed {
			core.Problem("stop-on-error: item %d was not executed although no item of this run failed", skipped)
		}
	}
	if sc.chkStop && b.stop && b.c <= 1 {
		// sequential / one worker: nothing after the first failing item
		seen := false
		for i := range b.it {
			ran, _, err, _ := b.expectedSlot(i)
			if seen && ran {
				core.Problem("stop-on-error: item %d executed although an earlier item had failed", i)
			}
			if ran && err != nil {
				seen = true
			}
		}
	}
	if sc.chkCancel && cancelled {
		if b.err != nil {
			postFailed := b.postAnswer != nil && b.postAnswer.err != nil && errors.Is(b.err, b.postAnswer.err)
			if !errors.Is(b.err, b.ctxErr) && !postFailed { // (a post that itself fails ends the run with ITS error)
				core.Problem("cancelled batch returned error %q which does not match the context's error", b.err)
			}
		} else {
			if b.postCalls != 1 && !sc.noPost {
				core.Problem("cancelled batch reported success but post was called %d times", b.postCalls)
			}
		}
	}
	if sc.chkAction && b.err == nil {
		if !sc.inFlow && b.action == "" {
			core.Problem("successful batch run returned the empty action")
		}
		want := flyt.DefaultAction
		if b.postAnswer != nil && b.postAnswer.action != "" {
			want = b.postAnswer.action
		}
		if sc.inFlow {
			if b.witness != (want == flyt.DefaultAction) {
				core.Problem("flow: the node connected on the default action ran=%v, but the batch post answered %q", b.witness, want)
			}
		} else if b.action != want {
			core.Problem("batch run returned action %q, want %q", b.action, want)
		}
	}
}

func contains(l []int, x int) bool {
	for _, y := range l {
		if y == x {
			return true
		}
	}
	return false
}

func sortedInts(m map[int]int) []int {
	var ks []int
	for k := range m {
		ks = append(ks, k)
	}
	sort.Ints(ks)
	return ks
}

var _ = time.Second
