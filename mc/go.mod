module flytverif

go 1.23

require (
	github.com/anishathalye/porcupine v1.3.0
	github.com/mark3labs/flyt v0.0.0
	golang.org/x/tools v0.29.0
)

replace github.com/mark3labs/flyt => /repo
