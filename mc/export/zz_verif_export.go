//go:build verif

package flyt

import "context"

// This file is added to package flyt through the build overlay only (it is
// never committed to /repo).  It gives the harness access to configurations
// the public API cannot build.

// ZZSetPrep sets the generic (non-batch) prep function of a batch node so that
// runBatch sees prep payloads other than []Result.
func ZZSetPrep(b *BatchNodeBuilder, f func(context.Context, *SharedStore) (any, error)) {
	b.batchPrepFunc = nil
	b.prepFunc = func(ctx context.Context, s *SharedStore) (Result, error) {
		v, err := f(ctx, s)
		if err != nil {
			return Result{}, err
		}
		return NewResult(v), nil
	}
}

// ZZSetFallback sets the fallback function of a batch node.
func ZZSetFallback(b *BatchNodeBuilder, f func(any, error) (any, error)) {
	b.execFallbackFunc = f
}

// ZZPoolWorkers reports the configured worker count of a pool.
func ZZPoolWorkers(p *WorkerPool) int { return p.workers }
