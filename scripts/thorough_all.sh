#!/bin/bash
# run every thorough check once (evidence not written: VERIF_NO_EVIDENCE) and print a one-line summary each
export GOFLAGS=-mod=mod GOPROXY=off GOSUMDB=off GOTOOLCHAIN=local VERIF_NO_EVIDENCE=1
cd "$(dirname "$0")/.."
(cd mc && go build -o ../bin/flytmc ./cmd/flytmc) || exit 2
for p in C01 C02 C03 C04 C05 C06 C07 C08 C09 C10 C11 C12 C13 C14 C15 C16 C17 C18 C19 C20; do
  s=$(date +%s)
  bin/flytmc check $p --tier thorough > /tmp/thorough_$p.log 2>&1
  rc=$?
  echo "$p exit=$rc wall=$(( $(date +%s) - s ))s $(grep '^property=' /tmp/thorough_$p.log | cut -c1-260)"
  grep -m3 'VIOLATION\|ERROR\|NOTE capped' /tmp/thorough_$p.log
done
