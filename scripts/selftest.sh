#!/bin/bash
# Everything that shows the machinery itself works: engine/model self-tests, the
# instrumentor's translation check, the hand-written mutants and the seeded changes.
export GOFLAGS=-mod=mod GOPROXY=off GOSUMDB=off GOTOOLCHAIN=local
cd "$(dirname "$0")/.."
(cd mc && go build -o ../bin/flytmc ./cmd/flytmc && go test -count=1 ./rt/core/) || exit 2
bin/flytmc transcheck || exit 2
python3 scripts/mutants.py --budget 40s --out selftest_mutants.json
python3 scripts/seeded.py run --budget 40s
