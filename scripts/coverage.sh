#!/bin/bash
# Diagnostic (not a check): which statements of flyt do the explored executions reach?
# Materialises the instrumented package in a scratch copy (go's -cover ignores -overlay),
# builds the harness with -cover, runs every property's quick tier on one shard for a short
# budget, and prints per-function coverage plus the uncovered blocks of the rewritten source.
# Usage: scripts/coverage.sh [budget=60s] [props...]
export GOFLAGS=-mod=mod GOPROXY=off GOSUMDB=off GOTOOLCHAIN=local
set -e
V="$(cd "$(dirname "$0")/.." && pwd)"
BUDGET="${1:-60s}"; shift || true
PROPS="${*:-C01 C02 C03 C04 C05 C06 C07 C08 C09 C10 C11 C12 C13 C14 C15 C16 C17 C18 C19 C20}"
W="$(mktemp -d /tmp/flytcov-XXXX)"
trap 'rm -rf "$W"' EXIT
"$V/bin/flytmc" instrument "$W/ov" >/dev/null
mkdir -p "$W/repo" "$W/cov"
cp /repo/go.mod /repo/go.sum "$W/repo/" 2>/dev/null || cp /repo/go.mod "$W/repo/"
for f in /repo/*.go; do case "$f" in *_test.go) ;; *) cp "$f" "$W/repo/";; esac; done
python3 - "$W" <<'EOF'
import json, os, shutil, sys
W = sys.argv[1]
for dst, src in json.load(open(W + "/ov/overlay.json"))["Replace"].items():
    d = W + "/repo" + dst[len("/repo"):]
    os.makedirs(os.path.dirname(d), exist_ok=True)
    shutil.copy(src, d)
EOF
rsync -a --exclude bin "$V/mc/" "$W/mc/"
(cd "$W/mc" && go mod edit -replace github.com/mark3labs/flyt="$W/repo" && go build -tags verif -cover -coverpkg=github.com/mark3labs/flyt,flytverif/harness -o "$W/harness" ./harness)
export W BUDGET
echo $PROPS | tr ' ' '\n' | xargs -P 16 -I{} sh -c 'GOCOVERDIR="$W/cov" GOMAXPROCS=1 timeout 1200 "$W/harness" -prop {} -tier quick -shard 0 -nshards 1 -budget "$BUDGET" -out "$W/out-{}.json" >/dev/null 2>&1 || echo "note: {} exited $?"'
go tool covdata textfmt -i="$W/cov" -o "$W/cover.txt"
(cd "$W/repo" && grep -v "^flytverif" "$W/cover.txt" > "$W/c2.txt"; go tool cover -func="$W/c2.txt" | sed "s#github.com/mark3labs/flyt/##" | awk '$NF != "100.0%"')
echo "---- uncovered blocks (rewritten source) ----"
python3 - "$W" <<'EOF'
import sys, re, collections
W = sys.argv[1]
blocks = collections.defaultdict(int)
for l in open(W + "/c2.txt").read().splitlines()[1:]:
    m = re.match(r"(.*):(\d+)\.(\d+),(\d+)\.(\d+) (\d+) (\d+)", l)
    f, a, _, b, _, n, c = m.groups()
    blocks[(f.split("/")[-1], int(a), int(b))] += int(c)
for (f, a, b), c in sorted(blocks.items()):
    if c == 0 and not f.startswith("zz"):
        src = open("%s/repo/%s" % (W, f)).read().splitlines()
        print("%s:%d-%d" % (f, a, b))
        for l in src[a - 1:min(b, a + 5)]:
            print("    " + l[:150])
EOF
