#!/usr/bin/env python3
"""Apply each hand-written property-breaking change (mutants/*.json) to /repo,
make sure the repository's own tests still pass, run the owning checks and
record whether they report a VIOLATION.  /repo is restored after every mutant.
usage: mutants.py [-k substring] [--tier quick] [--out selftest.json]"""
import json, os, subprocess, sys, glob, time

ENV = dict(os.environ, GOFLAGS="-mod=mod", GOPROXY="off", GOSUMDB="off", GOTOOLCHAIN="local", VERIF_NO_EVIDENCE="1")

def sh(cmd, cwd=None, timeout=900, env=ENV):
    p = subprocess.run(cmd, shell=True, cwd=cwd, env=env, stdout=subprocess.PIPE, stderr=subprocess.STDOUT, text=True, timeout=timeout)
    return p.returncode, p.stdout

def main():
    args = sys.argv[1:]
    key = None; out = None; budget = "20s"
    while args:
        a = args.pop(0)
        if a == "-k": key = args.pop(0)
        elif a == "--out": out = args.pop(0)
        elif a == "--budget": budget = args.pop(0)
    env = dict(ENV, VERIF_BUDGET=budget)
    rc, o = sh("git status --porcelain -- '*.go'", cwd="/repo")
    if o.strip():
        print("refusing: /repo has modified .go files:\n" + o); sys.exit(2)
    results = []
    for f in sorted(glob.glob("/verif/mutants/*.json")):
        for m in json.load(open(f)):
            if key and key not in m["id"]: continue
            t0 = time.time()
            rec = {"id": m["id"], "property": m["props"], "what": m["what"]}
            try:
                ok = True
                for e in m["edits"]:
                    p = os.path.join("/repo", e["file"]); s = open(p).read()
                    if s.count(e["old"]) != 1:
                        rec["error"] = "edit does not apply uniquely: %s" % e["old"][:60]; ok = False; break
                    open(p, "w").write(s.replace(e["old"], e["new"]))
                if ok:
                    rc, o = sh("go build ./... && go test -vet=off -count=1 . 2>&1 | tail -5", cwd="/repo")
                    rec["repo_tests_pass"] = (rc == 0 and "FAIL" not in o)
                    rec["checks"] = {}
                    for prop in m["props"]:
                        rc, o = sh("/verif/bin/flytmc check %s --tier quick" % prop, cwd="/verif", env=env)
                        viol = [l for l in o.splitlines() if l.startswith("VIOLATION")]
                        prob = [l.strip() for l in o.splitlines() if l.strip().startswith("problem:")]
                        rec["checks"][prop] = {"exit": rc, "violations": len(viol), "first_problem": prob[0] if prob else ""}
            finally:
                sh("git checkout -- .", cwd="/repo")
            rec["wall_s"] = round(time.time() - t0, 1)
            det = all(c["exit"] == 1 and c["violations"] > 0 for c in rec.get("checks", {}).values()) if rec.get("checks") else False
            rec["detected"] = det
            print("%-34s tests_pass=%s detected=%s %s" % (m["id"], rec.get("repo_tests_pass"), det, rec.get("error", "")), flush=True)
            for p, c in rec.get("checks", {}).items():
                print("     %s exit=%d %s" % (p, c["exit"], c["first_problem"][:150]))
            results.append(rec)
    if out:
        json.dump(results, open(out, "w"), indent=1)

main()
