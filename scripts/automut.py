#!/usr/bin/env python3
"""Bulk judgement of the checks by one-token mutants of the library (a diagnostic, not a check).

For every non-test source file of /repo, every applicable small mutation of every code line is
tried: relational / logical / arithmetic operator replacement, constant replacement, negation
removal, deletion of a simple statement.  A mutant that compiles AND passes the repository's own
93 tests is handed (through VERIF_OVERLAY, /repo is never touched) to the checks most likely to be
concerned, then to all the others; it is "detected" by the first check that reports a VIOLATION.
Survivors are either equivalent mutants or blind spots: the list is read by a human.

usage: automut.py [--verif DIR] [--files flyt.go,batch.go] [--limit N] [--budget 25s] [--shards 16]
                  [--only-survivors-of PREV.json] --out OUT.json
"""
import json, os, re, subprocess, sys, tempfile, shutil, time, hashlib

ENV = dict(os.environ, GOFLAGS="-mod=mod", GOPROXY="off", GOSUMDB="off", GOTOOLCHAIN="local", VERIF_NO_EVIDENCE="1")
REPO = "/repo"
ALL = ["C%02d" % i for i in range(1, 21)]
FIRST_N = {"result.go": 4, "builder.go": 6, "batch.go": 9, "flyt.go": 7}

def sh(cmd, cwd=None, timeout=900, env=ENV):
    p = subprocess.run(cmd, shell=True, cwd=cwd, env=env, stdout=subprocess.PIPE, stderr=subprocess.STDOUT, text=True, timeout=timeout)
    return p.returncode, p.stdout

# ---------------------------------------------------------------- which checks first
def props_for(fname, func):
    f = func or ""
    if fname == "result.go":
        first = ["C15", "C16", "C17", "C06"]
    elif fname == "builder.go":
        first = ["C19", "C17", "C01", "C02", "C04", "C18"]
    elif fname == "batch.go":
        if "runExecWithRetries" in f: first = ["C02", "C07", "C20", "C11", "C09"]
        elif "With" in f or "NewBatchNode" in f: first = ["C19", "C06", "C07", "C17"]
        else: first = ["C06", "C09", "C11", "C07", "C08", "C18", "C02", "C17", "C05"]
    else:
        if "SharedStore" in f:
            first = ["C14", "C13", "C15", "C16"]
        elif "WorkerPool" in f or f in ("NewWorkerPool",):
            first = ["C12", "C08", "C06", "C19"]
        elif "Flow" in f:
            first = ["C03", "C10", "C04", "C05", "C18", "C01"]
        elif f == "Run":
            first = ["C01", "C02", "C04", "C05", "C18", "C20", "C17"]
        elif f == "ToSlice":
            first = ["C15", "C06"]
        elif "CustomNode" in f or f.startswith("With") or f == "NewNode":
            first = ["C17", "C01", "C19", "C02", "C04"]
        else:
            first = ["C19", "C01", "C02", "C20"]
    return first + [p for p in ALL if p not in first]

# ---------------------------------------------------------------- mutation operators
REL = {"<=": ["<"], ">=": [">"], "==": ["!="], "!=": ["=="], "<": ["<="], ">": [">="]}
def strip_strings(line):
    """mask string / rune literals and the trailing comment so operators inside them are left alone"""
    out, i, n = [], 0, len(line)
    while i < n:
        c = line[i]
        if c == '/' and i + 1 < n and line[i + 1] == '/':
            out.append(' ' * (n - i)); break
        if c in '"`\'':
            q = c; j = i + 1
            while j < n and line[j] != q:
                if line[j] == '\\' and q != '`': j += 1
                j += 1
            out.append(q + '\x00' * (j - i - 1) + (q if j < n else '')); i = j + 1; continue
        out.append(c); i += 1
    return ''.join(out)

def mutations(line):
    """yield (description, new_line) for one source line"""
    m = strip_strings(line)
    code = m.strip()
    if not code or code.startswith("//") or code.startswith("import") or code.startswith("package"):
        return
    # relational / logical / arithmetic
    for mo in re.finditer(r"<=|>=|==|!=|&&|\|\||<-|->|<|>|\+\+|--|\+=|-=|\+|-|\*", m):
        op, a, b = mo.group(0), mo.start(), mo.end()
        if op in ("<-", "->", "++", "--"):
            continue
        if op in REL:
            if op in ("<", ">") and (re.search(r"\b(map|chan|func)\b|\[\w*\]", m[max(0, a - 12):a]) and False):
                continue
            for r in REL[op]:
                yield ("%s -> %s @%d" % (op, r, a), line[:a] + r + line[b:])
        elif op == "&&":
            yield ("&& -> || @%d" % a, line[:a] + "||" + line[b:])
        elif op == "||":
            yield ("|| -> && @%d" % a, line[:a] + "&&" + line[b:])
        elif op in ("+", "-"):
            prev = m[:a].rstrip()
            if not prev or prev[-1] in "(,=:[{<>!&|+-*/" or prev.endswith("return") or prev.endswith("case"):
                continue  # unary
            yield ("%s -> %s @%d" % (op, "-" if op == "+" else "+", a), line[:a] + ("-" if op == "+" else "+") + line[b:])
        elif op == "+=":
            yield ("+= -> -= @%d" % a, line[:a] + "-=" + line[b:])
        elif op == "-=":
            yield ("-= -> += @%d" % a, line[:a] + "+=" + line[b:])
        elif op == "*":
            prev = m[:a].rstrip()
            nxt = m[b:b + 1]
            if prev and (prev[-1].isalnum() or prev[-1] in ")]") and nxt == " ":
                yield ("* -> + @%d" % a, line[:a] + "+" + line[b:])
    # constants
    for mo in re.finditer(r"(?<![\w.\"])(\d+)(?![\w.\"])", m):
        v, a, b = mo.group(1), mo.start(1), mo.end(1)
        for r in ({"0": ["1"], "1": ["0", "2"], "2": ["1", "3"]}.get(v, [str(int(v) + 1)])):
            yield ("%s -> %s @%d" % (v, r, a), line[:a] + r + line[b:])
    for mo in re.finditer(r"\b(true|false)\b", m):
        v, a, b = mo.group(1), mo.start(1), mo.end(1)
        yield ("%s -> %s @%d" % (v, "false" if v == "true" else "true", a), line[:a] + ("false" if v == "true" else "true") + line[b:])
    # negation removal
    for mo in re.finditer(r"!(?=[\w(])", m):
        a = mo.start()
        yield ("drop ! @%d" % a, line[:a] + line[a + 1:])
    # statement deletion (simple statements only)
    if re.match(r"^(defer\s+)?[\w.\[\]\(\)\*&]+(\(.*\)|\s*(=|\+=|-=|\+\+|--).*)$", code) and not code.startswith("return") and not code.endswith("{"):
        ind = line[:len(line) - len(line.lstrip())]
        yield ("delete statement", ind + "// (deleted)")
    if code in ("break", "continue"):
        ind = line[:len(line) - len(line.lstrip())]
        yield ("delete %s" % code, ind + "// (deleted)")
    if re.match(r"^return\b.*\bnil\b", code) and code.count(",") == 1 and code.endswith("nil"):
        pass

def enclosing_funcs(lines):
    cur, res = None, []
    for l in lines:
        mo = re.match(r"^func\s+(\([^)]*\)\s*)?(\w+)", l)
        if mo:
            recv = mo.group(1) or ""
            cur = (re.sub(r"[()*\s]|\b\w+\s", "", recv.strip("() ").split(" ")[-1] if recv else "") + "." if recv else "") + mo.group(2)
        res.append(cur)
    return res

def main():
    a = sys.argv[1:]
    verif, files, limit, budget, shards, out, prev = "/verif", None, 0, "25s", "16", None, None
    resume = False
    all_checks = False
    while a:
        x = a.pop(0)
        if x == "--verif": verif = a.pop(0)
        elif x == "--files": files = a.pop(0).split(",")
        elif x == "--limit": limit = int(a.pop(0))
        elif x == "--budget": budget = a.pop(0)
        elif x == "--shards": shards = a.pop(0)
        elif x == "--out": out = a.pop(0)
        elif x == "--only-survivors-of": prev = a.pop(0)
        elif x == "--resume": resume = True
        elif x == "--all-checks": all_checks = True
    files = files or [f for f in sorted(os.listdir(REPO)) if f.endswith(".go") and not f.endswith("_test.go")]
    want = None
    if prev:
        want = {r["id"] for r in json.load(open(prev)) if r["status"] in ("survived", "infra-error")}
    work = tempfile.mkdtemp(prefix="automut-")
    env = dict(ENV, VERIF_BUDGET=budget, VERIF_SHARDS=shards)
    results, t00 = [], time.time()
    done = set()
    if resume and out and os.path.exists(out):
        results = json.load(open(out))
        done = {r["id"] for r in results}
    try:
        n = 0
        for fname in files:
            src = open(os.path.join(REPO, fname)).read().split("\n")
            funcs = enclosing_funcs(src)
            in_block_comment = False
            for i, line in enumerate(src):
                if funcs[i] is None:
                    continue
                for desc, new in mutations(line):
                    if new == line:
                        continue
                    mid = "%s:%d %s" % (fname, i + 1, desc)
                    if (want is not None and mid not in want) or mid in done:
                        continue
                    n += 1
                    if limit and n > limit:
                        raise StopIteration
                    mdir = os.path.join(work, hashlib.md5(mid.encode()).hexdigest()[:10]); os.makedirs(mdir)
                    mfile = os.path.join(mdir, fname)
                    open(mfile, "w").write("\n".join(src[:i] + [new] + src[i + 1:]))
                    ov = os.path.join(mdir, "overlay.json")
                    json.dump({"Replace": {os.path.join(REPO, fname): mfile}}, open(ov, "w"))
                    rec = {"id": mid, "func": funcs[i], "old": line.strip(), "new": new.strip()}
                    t0 = time.time()
                    rc, o = sh("go build -overlay %s . 2>&1 | tail -3" % ov, cwd=REPO)
                    if rc != 0 or "error" in o.lower() or o.strip():
                        rec["status"] = "does-not-compile"
                    else:
                        rc, o = sh("timeout 120 go test -overlay %s -vet=off -count=1 . 2>&1 | tail -3" % ov, cwd=REPO)
                        if rc != 0 or "FAIL" in o or "ok" not in o:
                            rec["status"] = "killed-by-suite"
                        else:
                            rec["status"] = "survived"; rec["tried"] = []
                            e2 = dict(env, VERIF_OVERLAY="%s=%s" % (os.path.join(REPO, fname), mfile))
                            order = props_for(fname, funcs[i])
                            if not all_checks:
                                order = order[:FIRST_N.get(fname, 6) + 2]  # the checks concerned with this code (+2)
                            for k, prop in enumerate(order):
                                if k >= FIRST_N.get(fname, 6):
                                    e2["VERIF_BUDGET"] = "8s"  # the checks that are not about this code: a short look
                                rc, o = sh("timeout 400 %s/bin/flytmc check %s --tier quick 2>&1 | tail -40" % (verif, prop), cwd=verif, env=e2)
                                rec["tried"].append(prop)
                                if "VIOLATION" in o:
                                    prob = [l.strip() for l in o.splitlines() if l.strip().startswith("problem:")]
                                    rec["status"] = "detected"; rec["by"] = prop; rec["problem"] = (prob[0] if prob else "")[:200]
                                    break
                                if "ERROR" in o or "INTERNAL" in o:
                                    rec["status"] = "infra-error"; rec["by"] = prop; rec["output"] = o[-600:]
                                    break
                    rec["wall_s"] = round(time.time() - t0, 1)
                    shutil.rmtree(mdir, ignore_errors=True)
                    results.append(rec)
                    print("%-46s %-17s %s %s" % (mid[:46], rec["status"], rec.get("by", ""), rec.get("problem", "")[:90]), flush=True)
                    if out and len(results) % 20 == 0:
                        json.dump(results, open(out, "w"), indent=1)
    except StopIteration:
        pass
    finally:
        shutil.rmtree(work, ignore_errors=True)
    if out:
        json.dump(results, open(out, "w"), indent=1)
    c = {}
    for r in results:
        c[r["status"]] = c.get(r["status"], 0) + 1
    print("SUMMARY", json.dumps(c), "in %.0f s" % (time.time() - t00))

main()
