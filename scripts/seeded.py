#!/usr/bin/env python3
"""seeded.py import Cxx A|B   : confirm a sub-agent's change in its scratch worktree (/tmp/wt-Cxx) and keep it as /verif/seeded/Cxx-A/
   seeded.py run [-k substr] [--props C01,C02] : apply each kept change to /repo, run the owning check(s), undo, record in meta.json"""
import json, os, shutil, subprocess, sys, glob, time

ENV = dict(os.environ, GOFLAGS="-mod=mod", GOPROXY="off", GOSUMDB="off", GOTOOLCHAIN="local", VERIF_NO_EVIDENCE="1")

def sh(cmd, cwd=None, timeout=1200, env=ENV):
    p = subprocess.run(cmd, shell=True, cwd=cwd, env=env, stdout=subprocess.PIPE, stderr=subprocess.STDOUT, text=True, timeout=timeout)
    return p.returncode, p.stdout

def confirm(prop, which, wtbase="/tmp/wt-"):
    wt = "%s%s" % (wtbase, prop)
    src = "%s/SEED/%s" % (wt, which)
    rec = {"property": prop, "seed": which, "confirmed_at": time.strftime("%Y-%m-%dT%H:%M:%SZ", time.gmtime()), "ran": []}
    def step(name, cmd, cwd=wt):
        rc, o = sh(cmd, cwd=cwd)
        rec["ran"].append({"step": name, "cmd": cmd, "exit": rc, "tail": o.strip().splitlines()[-3:]})
        return rc, o
    sh("git checkout -- . && rm -f seed_*_test.go zz_seed_demo_test.go", cwd=wt)
    rc, _ = step("apply", "git apply %s/patch.diff" % src)
    if rc != 0: return rec, "patch does not apply"
    rc, o = step("suite-with-change", "go build ./... && go test -vet=off -count=1 .")
    if rc != 0 or "FAIL" in o: sh("git checkout -- .", cwd=wt); return rec, "existing suite fails with the change"
    shutil.copy(src + "/demo_test.go", wt + "/zz_seed_demo_test.go")
    notes = open(src + "/notes.md").read() if os.path.exists(src + "/notes.md") else ""
    race = "-race " if ("-race" in notes and "race" in notes.lower() and "data race" in notes.lower() and "needs -race" in notes.lower()) else ""
    rc1, o1 = step("demo-with-change", "go test -vet=off -count=1 %s-run 'Seed|seed' . 2>&1 | tail -15" % race)
    failed_with = ("FAIL" in o1)
    sh("git checkout -- .", cwd=wt)
    rc2, o2 = step("demo-without-change", "go test -vet=off -count=1 %s-run 'Seed|seed' . 2>&1 | tail -5" % race)
    passed_without = ("FAIL" not in o2 and "ok" in o2)
    os.remove(wt + "/zz_seed_demo_test.go")
    if not failed_with: return rec, "demonstration does not fail with the change"
    if not passed_without: return rec, "demonstration does not pass without the change"
    dst = "/verif/seeded/%s-%s" % (prop, which)
    os.makedirs(dst, exist_ok=True)
    for f in ("patch.diff", "demo_test.go", "notes.md"):
        if os.path.exists(src + "/" + f): shutil.copy(src + "/" + f, dst + "/" + f)
    meta = {"id": "%s-%s" % (prop, which), "breaks_property": prop, "source": "independent sub-agent given only the property text and a scratch worktree",
            "needs_to_manifest": first_needs(notes), "confirmation": rec, "checks": {}}
    json.dump(meta, open(dst + "/meta.json", "w"), indent=1)
    return rec, None

def first_needs(notes):
    for l in notes.splitlines():
        if "need" in l.lower() or "manifest" in l.lower():
            return l.strip()[:400]
    return notes.strip()[:300]

def run(key, props_override, budget):
    rc, o = sh("git status --porcelain -- '*.go'", cwd="/repo")
    if o.strip(): print("refusing: /repo has modified .go files"); sys.exit(2)
    env = dict(ENV, VERIF_BUDGET=budget)
    for d in sorted(glob.glob("/verif/seeded/*/")):
        mid = os.path.basename(d.rstrip("/"))
        if key and key not in mid: continue
        meta = json.load(open(d + "meta.json"))
        props = props_override or [meta["breaks_property"]] + meta.get("also_check", [])
        try:
            rc, o = sh("git apply %spatch.diff" % d, cwd="/repo")
            if rc != 0:
                # the patch was written against an earlier commit: fall back to a 3-way merge
                rc, o = sh("git apply --3way %spatch.diff && git reset -q" % d, cwd="/repo")
            if rc != 0:
                print(mid, "PATCH DOES NOT APPLY", o[:200]); continue
            for p in props:
                t0 = time.time()
                rc, o = sh("/verif/bin/flytmc check %s --tier quick" % p, cwd="/verif", env=env)
                prob = [l.strip() for l in o.splitlines() if l.strip().startswith("problem:")]
                viol = [l for l in o.splitlines() if l.startswith("VIOLATION")]
                meta["checks"][p] = {"tier": "quick", "exit": rc, "violation_lines": len(viol), "first_problem": prob[0][:300] if prob else "", "wall_s": round(time.time() - t0, 1),
                                     "cmd": "git -C /repo apply seeded/%s/patch.diff; bin/flytmc check %s --tier quick; git -C /repo checkout -- ." % (mid, p)}
                print("%-10s %s exit=%d viol=%d %s" % (mid, p, rc, len(viol), (prob[0][:140] if prob else o.strip().splitlines()[-1][:140] if o.strip() else "")), flush=True)
        finally:
            sh("git reset -q --hard HEAD && git clean -fdq -- '*.go'", cwd="/repo")
        meta["detected"] = any(c["exit"] == 1 and c["violation_lines"] > 0 for c in meta["checks"].values())
        json.dump(meta, open(d + "meta.json", "w"), indent=1)

a = sys.argv[1:]
if a and a[0] == "import":
    rec, err = confirm(a[1], a[2], a[3] if len(a) > 3 else "/tmp/wt-")
    print(a[1], a[2], "CONFIRMED" if not err else "REJECTED: " + err)
    for r in rec["ran"]: print("   ", r["step"], "exit", r["exit"], r["tail"][-1:] )
elif a and a[0] == "run":
    key = None; props = None; budget = "30s"
    i = 1
    while i < len(a):
        if a[i] == "-k": key = a[i+1]; i += 2
        elif a[i] == "--props": props = a[i+1].split(","); i += 2
        elif a[i] == "--budget": budget = a[i+1]; i += 2
        else: i += 1
    run(key, props, budget)
else:
    print(__doc__)
